#!/usr/bin/env python3
"""Generates plan/*.json for templated units (run by hand after editing; output is committed)."""
import json, os
HERE = os.path.dirname(os.path.abspath(__file__))
RB = ['decoder->bit_stream_reader']

def lhnew(name, method_file, tiers, extra_defs=(), props_extra=(), big=None):
    base_defs = ['VG_METHOD_FILE="%s"' % method_file] + list(extra_defs)
    if big:
        base_defs += ['VG_OB=%d' % big['ob'], 'VG_NC=%d' % big['nc'], 'VG_LHARK=%d' % big['lhark']]
    P = ['C09'] + list(props_extra)
    G = []
    def g(fn, entry, route='dfcc', enforce=None, replace=(), defs=(), timeout=300, suffix='', props=None, **kw):
        d = dict(id='%s.%s%s' % (name, fn, suffix), props=props or P, entry=entry, route=route,
                 defs=base_defs + list(defs), timeout=timeout, functions=[fn] if enforce else [], tiers=tiers)
        if enforce:
            d['enforce'] = enforce
        if replace:
            d['replace'] = list(replace)
        if route == 'dfcc':
            d.setdefault('expect', ['postcondition'])
        d.update(kw)
        G.append(d)
    T13 = P + ['C13']
    g('peek_bits', 'h_peek_bits', enforce='peek_bits', props=T13, expect=['postcondition', 'loop_decreases', 'loop_invariant_step'])
    g('read_bits', 'h_read_bits', enforce='read_bits', replace=['peek_bits'])
    g('read_bit', 'h_read_bit', enforce='read_bit', replace=['read_bits'])
    trees = {1: 'code', 2: 'offset', 3: 'temp'}
    for k, tn in trees.items():
        sfx = '@' + tn
        bt = ['VG_BT=%d' % k]
        g('init_tree', 'h_init_tree', enforce='init_tree', defs=bt, suffix=sfx, props=T13, expect=['postcondition', 'loop_decreases'])
        g('set_tree_single', 'h_set_tree_single', enforce='set_tree_single', defs=bt, suffix=sfx)
        g('expand_queue', 'h_expand_queue', enforce='expand_queue', defs=bt, suffix=sfx, props=T13, timeout=900,
          expect=['postcondition', 'loop_decreases', 'loop_invariant_step'])
        g('read_next_entry', 'h_read_next_entry', enforce='read_next_entry', defs=bt, suffix=sfx)
        g('add_codes_with_length', 'h_add_codes_with_length', enforce='add_codes_with_length', replace=['read_next_entry'],
          defs=bt, suffix=sfx, props=T13, timeout=900, expect=['postcondition', 'loop_decreases', 'loop_invariant_step'])
        g('build_tree', 'h_build_tree', enforce='build_tree', replace=['expand_queue', 'add_codes_with_length'],
          defs=bt, suffix=sfx, props=T13, timeout=900, expect=['postcondition', 'loop_decreases', 'loop_invariant_step'])
        g('read_from_tree', 'h_read_from_tree', enforce='read_from_tree', replace=['read_bit'], defs=['VG_RT=%d' % k],
          suffix=sfx, props=T13, expect=['postcondition', 'loop_decreases', 'loop_invariant_step'])
    g('read_length_value', 'h_read_length_value', enforce='read_length_value', replace=['read_bits', 'read_bit'],
      cbmc_flags=['--no-signed-overflow-check'],
      note='signed-overflow check off: ++len can overflow only after 2^31 consecutive 1-bits of input; not a memory-safety matter (callers only test len < 0)')
    g('read_temp_table', 'h_read_temp_table', enforce='read_temp_table', defs=['VG_BT=3'], props=T13,
      replace=['read_bits', 'read_length_value', 'set_tree_single', 'build_tree'], expect=['postcondition', 'loop_decreases'])
    g('read_skip_count', 'h_read_skip_count', enforce='read_skip_count', replace=['read_bits'])
    g('read_code_table', 'h_read_code_table', enforce='read_code_table', defs=['VG_BT=1', 'VG_RT=3'], props=T13, timeout=600,
      replace=['read_bits', 'read_from_tree', 'read_skip_count', 'set_tree_single', 'build_tree'], expect=['postcondition', 'loop_decreases'])
    g('read_offset_table', 'h_read_offset_table', enforce='read_offset_table', defs=['VG_BT=2'], props=T13,
      replace=['read_bits', 'read_length_value', 'set_tree_single', 'build_tree'], expect=['postcondition', 'loop_decreases'])
    g('start_new_block', 'h_start_new_block', enforce='start_new_block', timeout=600,
      replace=['read_bits', 'read_temp_table', 'read_code_table', 'read_offset_table'])
    g('read_code', 'h_read_code', enforce='read_code', defs=['VG_RT=1'], replace=['read_from_tree'])
    g('read_offset_code', 'h_read_offset_code', enforce='read_offset_code', defs=['VG_RT=2'], props=P + ['C01'],
      replace=['read_from_tree', 'read_bits'] + (['lhark_read_offset_code'] if 'lk7' in name else []))
    if 'lk7' in name:
        g('lhark_read_offset_code', 'h_lhark_read_offset_code', enforce='lhark_read_offset_code', replace=['read_bits'],
          cbmc_flags=['--no-signed-overflow-check'],
          note='signed-overflow check off: (2 + code % 2) << 30 overflows int for offset code 63 (undefined behaviour noted in DESIGN.md section 7; the negative result is treated as failure by the caller; not a memory-safety matter)')
        g('lhark_decode_copy_count', 'h_lhark_decode_copy_count', enforce='lhark_decode_copy_count', replace=['read_bits'])
    g('output_byte', 'h_output_byte', enforce='output_byte', timeout=600, backend=['cvc5', 'sat'], props=P + ['C01'])
    g('copy_from_history', 'h_copy_from_history', enforce='copy_from_history', replace=['read_offset_code', 'output_byte'],
      defs=['VG_OB_LIGHT', 'VG_ROC_LIGHT'], props=T13, timeout=900, expect=['postcondition', 'loop_decreases', 'loop_invariant_step'])
    g('copy_from_history.func', 'h_copy_from_history_func', route='legacy', replace=['read_offset_code'],
      defs=['VG_HARNESS_MODE', 'VG_CALLSITE_PRE_ELSEWHERE', 'VG_ROC_LIGHT'], backend=['cvc5', 'z3'], props=['C01'], timeout=900,
      functions=['copy_from_history', 'output_byte'],
      expect=['loop invariant is preserved', 'loop invariant before entry', 'decreases clause'])
    g('read_length_value.func', 'h_read_length_value_func', route='plain', defs=['VG_FUNC'], props=['C01'], level='bounded',
      bound='unary extension of at most 11 one-bits (lengths 0..18; valid LHA code lengths are 0..16)',
      cbmc_flags=['--unwind', '14', '--unwinding-assertions'], timeout=900, functions=['read_length_value'], backend=['sat'])
    g('read_skip_count.func', 'h_read_skip_count_func', route='plain', defs=['VG_FUNC'], props=['C01'],
      cbmc_flags=['--unwind', '6', '--unwinding-assertions'], timeout=600, functions=['read_skip_count'],
      note='loop-free apart from the width-bounded bit reader loops: complete')
    g('lha_lh_new_read', 'h_read', enforce='lha_lh_new_read', timeout=900,
      replace=['start_new_block', 'read_code', 'output_byte', 'copy_from_history'] + (['lhark_decode_copy_count'] if 'lk7' in name else []))
    g('init_ring_buffer', 'h_init_ring_buffer', enforce='init_ring_buffer', timeout=600)
    g('lha_lh_new_init', 'h_init', enforce='lha_lh_new_init', replace=['init_ring_buffer'], defs=['VG_INLINE_INIT_TREE'],
      cbmc_flags=['--unwind', '1030', '--unwinding-assertions'], timeout=900, loop_contracts=False)
    g('dtype', 'h_dtype', route='plain', props=P + ['C14'])
    if big:
        red = ['VG_OB=%d' % big['ob'], 'VG_NC=%d' % big['nc'], 'VG_LHARK=%d' % big['lhark']]
        g('params', 'h_params', route='plain')
        # ring-touching functions: SAT cannot carry >= 64 KiB arrays; prove them at the REAL size on the SMT route
        G[:] = [x for x in G if x['id'] not in ('%s.output_byte' % name, '%s.copy_from_history' % name, '%s.lha_lh_new_read' % name)]
        g('output_byte', 'h_output_byte_hm', route='plain', defs=['VG_HARNESS_MODE'], backend=['cvc5', 'z3'], timeout=600,
          functions=['output_byte'], note='real ring size; contract checked around the real call (loop-free), quantifier-free on SMT; assigns frame checked by explicit unchanged-assertions')
        for x in G:
            if x['id'] == '%s.copy_from_history.func' % name:
                x['props'] = ['C01', 'C09', 'C13']
                x['note'] = 'real ring size: memory safety (bounds/pointer checks on), termination variant and LZ77 semantics of the copy loop in one harness-mode group (legacy loop contract, SMT)'
        g('lha_lh_new_read', 'h_read', enforce='lha_lh_new_read', timeout=900, defs=['VG_REDUCED_RING'],
          replace=['start_new_block', 'read_code', 'output_byte', 'copy_from_history'] + (['lhark_decode_copy_count'] if big['lhark'] else []),
          note='REDUCED RING (HISTORY_BITS 14, real OFFSET_BITS/NUM_CODES): this function never indexes the ring itself; parametricity in HISTORY_BITS is an unchecked assumption (DESIGN.md section 2 item 7)')
    return dict(unit=name, harness='harness/h_lhnew.c', groups=G)

def write(d):
    json.dump(d, open(os.path.join(HERE, d['unit'] + '.json'), 'w'), indent=1)

if __name__ == '__main__':
    write(lhnew('lh5', 'lib/lh5_decoder.c', ['quick', 'thorough']))
    for nm, big in (('lh6', dict(ob=5, nc=510, lhark=0)), ('lh7', dict(ob=5, nc=510, lhark=0)),
                    ('lhx', dict(ob=5, nc=510, lhark=0)), ('lk7', dict(ob=6, nc=289, lhark=1))):
        write(lhnew(nm, 'lib/%s_decoder.c' % nm, ['thorough'], big=big))

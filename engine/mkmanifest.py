#!/usr/bin/env python3
"""Regenerate MANIFEST.json from meta/manifest_claims.json + properties.jsonl (keeps it valid at all times)."""
import json, os
V = os.path.dirname(os.path.dirname(os.path.abspath(__file__)))
props = [json.loads(l) for l in open(os.path.join(V, 'properties.jsonl'))]
claims = json.load(open(os.path.join(V, 'meta', 'manifest_claims.json')))
checks = []
na = []
for p in props:
    pid = p['id']
    c = claims.get('claimed', {}).get(pid)
    if c:
        checks.append({
            'property_id': pid,
            'quick_cmd': './check %s --tier quick' % pid,
            'thorough_cmd': './check %s --tier thorough' % pid,
            'evidence_file': 'evidence/%s.json' % pid,
            'replay_cmd_template': './check %s --replay {path}' % pid,
            'engine': 'cbmc-contracts',
            'level_claimed': {'category': c['category'], 'text': c['text'], 'design_ref': c.get('design_ref', 'DESIGN.md section 5 ' + pid)},
            'level_note': c['note'],
            'technique': c.get('technique', 'contract-based deductive verification: CBMC function and loop contracts woven onto the real C text, enforced per function by goto-instrument, discharged by SAT/SMT'),
        })
    else:
        na.append({'property_id': pid, 'reason': claims.get('not_applicable', {}).get(pid, 'no check built yet for this property (see DESIGN.md section 5)')})
m = {
    'version': 1,
    'setup_cmd': 'python3 -m py_compile engine/weave.py engine/run.py engine/verdict.py engine/replay.py && cbmc --version >/dev/null && goto-instrument --version >/dev/null && goto-cc --version >/dev/null && echo setup-ok',
    'hooks': {'guard': 'LHASA_VERIF',
              'enable': 'no source hooks: contract clauses live in /verif/contracts/**.spec and are woven (insert-only, strip-and-compare checked) into a scratch copy of /repo\'s current working tree on every run, then compiled by goto-cc with -DLHASA_VERIF',
              'baseline_off_cmd': 'cd /repo && make check',
              'source_commits': claims.get('source_commits', []),
              'add_only': True},
    'engines': [{'name': 'cbmc-contracts', 'path': 'engine/run.py',
                 'serves_properties': [c['property_id'] for c in checks],
                 'kind_free_text': 'weaver + goto-cc + goto-instrument (DFCC / loop contracts) + cbmc (MiniSat, z3, cvc5); native ASan replay drivers'}],
    'checks': checks,
    'notes': claims.get('notes', ''),
    'not_applicable': na,
}
json.dump(m, open(os.path.join(V, 'MANIFEST.json'), 'w'), indent=1)
print('checks:', [c['property_id'] for c in checks], 'n/a:', len(na))

"""From a failed obligation to a replayed input (DESIGN.md 3.6)."""
import hashlib, json, os, re, shutil, subprocess, sys, time
import run

VERIF = run.VERIF
REPO = run.REPO

def collect_inputs(trace):
    """Last assignment to every vg_in_* lvalue (scalars and array cells) in a json trace."""
    vals = {}
    for s in trace or []:
        if s.get('stepType') != 'assignment':
            continue
        lhs = s.get('lhs') or ''
        if not lhs.startswith('vg_in_'):
            continue
        v = s.get('value', {})
        d = v.get('data')
        if d is None:
            continue
        m = re.match(r'^(\w+)\[(\d+)l?\]$', lhs)
        try:
            num = int(re.sub(r'[uUlL]+$', '', str(d)), 0)
        except ValueError:
            # char-typed cells are printed as character literals; the bit pattern is always there
            b = v.get('binary')
            if not b or not re.match(r'^[01]{1,64}$', b):
                continue
            num = int(b, 2)
        if m:
            vals.setdefault(m.group(1), {})[int(m.group(2))] = num
        elif re.match(r'^\w+$', lhs):
            vals[lhs] = num
    return vals

def trace_excerpt(trace, limit=60):
    out = []
    for s in trace or []:
        fn = (s.get('sourceLocation', {}) or {}).get('function') or ''
        lhs = s.get('lhs') or ''
        if fn.startswith('__CPROVER') or lhs.startswith('__') or lhs.startswith('return_value___VERIFIER') or lhs.startswith('goto_symex'):
            continue
        if s.get('stepType') == 'assignment':
            d = s.get('value', {}).get('data')
            if d is None:
                continue
            loc = s.get('sourceLocation', {})
            out.append('%s=%s @%s:%s' % (s.get('lhs'), d, loc.get('function'), loc.get('line')))
    return out[-limit:]

def build_driver(name, scratch, extra_src=(), sources=None):
    """Build a native ASan/UBSan driver from /repo's current sources."""
    out = os.path.join(scratch, 'drv_' + name)
    if os.path.exists(out):
        return out, ''
    if sources:
        libsrc = [os.path.join(REPO, x) for x in sources]
    else:
        libsrc = sorted(f for f in (os.path.join(REPO, 'lib', x) for x in os.listdir(os.path.join(REPO, 'lib')))
                        if f.endswith('.c') and os.path.basename(f) not in
                        ('bit_stream_reader.c', 'lh_new_decoder.c', 'pma_common.c', 'tree_decode.c'))
    cfg = os.path.join(scratch, 'cfg')
    os.makedirs(cfg, exist_ok=True)
    if os.path.exists(os.path.join(REPO, 'config.h')):
        shutil.copyfile(os.path.join(REPO, 'config.h'), os.path.join(cfg, 'config.h'))
    else:
        open(os.path.join(cfg, 'config.h'), 'w').write('#define PACKAGE_STRING "Lhasa"\n')
    cmd = ['clang', '-g', '-O1', '-fsanitize=address,undefined', '-fno-sanitize=shift,signed-integer-overflow', '-fno-sanitize-recover=undefined',
           '-fno-omit-frame-pointer', '-DHAVE_CONFIG_H', '-I', cfg, '-I', os.path.join(REPO, 'lib'),
           '-I', os.path.join(REPO, 'lib', 'public'), '-I', os.path.join(REPO, 'src'),
           os.path.join(VERIF, 'replay', 'drv_%s.c' % name)] + list(extra_src) + libsrc + ['-o', out]
    p = subprocess.run(cmd, stdout=subprocess.PIPE, stderr=subprocess.STDOUT)
    if p.returncode != 0:
        return None, p.stdout.decode('utf-8', 'replace')[-1500:]
    return out, ''

def hexbytes(cells, n=None):
    if not cells:
        return ''
    m = max(cells) + 1 if n is None else n
    return ''.join('%02x' % (cells.get(i, 0) & 0xff) for i in range(m))

def driver_args(rc, vals):
    """Map collected vg_in_* values to driver argv according to the replay config."""
    args = []
    for a in rc['args']:
        if isinstance(a, dict):
            if 'bytes' in a:
                n = vals.get(a.get('len')) if a.get('len') else None
                args.append(hexbytes(vals.get(a['bytes'], {}), n) or '-')
            elif 'hex' in a:
                args.append('%x' % vals.get(a['hex'], 0))
            elif 'int' in a:
                args.append(str(vals.get(a['int'], a.get('default', 0))))
        else:
            args.append(str(a))
    return args

def run_native(rc, vals, scratch):
    drv, err = build_driver(rc['driver'], scratch, sources=rc.get('sources'))
    if not drv:
        return dict(built=False, error=err)
    args = driver_args(rc, vals)
    env = dict(os.environ, ASAN_OPTIONS='detect_leaks=%d:abort_on_error=0' % (1 if rc.get('leaks') else 0),
               UBSAN_OPTIONS='print_stacktrace=1')
    try:
        p = subprocess.run([drv] + args, stdout=subprocess.PIPE, stderr=subprocess.STDOUT, timeout=rc.get('timeout', 20), env=env)
        out = p.stdout.decode('utf-8', 'replace')
        code = p.returncode
    except subprocess.TimeoutExpired as e:
        out = (e.stdout or b'').decode('utf-8', 'replace') + '\n[native run did not return within %ds]' % rc.get('timeout', 20)
        code = 124
    return dict(built=True, argv=['drv_' + rc['driver']] + args, exit=code, output=out[-3000:],
                reproduced=(code != 0))

def refute_and_replay(pid, g, gres, fails, woven, scratch):
    """Returns (replay path, failing-input-found)."""
    rec = {'property': pid, 'group': gres['id'], 'level': gres['level'],
           'failed_obligations': fails, 'checker_cmd': gres.get('cmd'), 'repo_head': None,
           'time': time.strftime('%Y-%m-%dT%H:%M:%S')}
    # 1. trace of the failed group
    tr = run.run_group(g, woven, os.path.join(scratch, 'trace'), want_trace=True)
    failing = [o for o in tr.get('obligations', []) if o['status'] == 'FAILURE' and not (o['desc'] or '').startswith('VG_CANARY')]
    rec['verifier_output'] = [{'obligation': o['name'], 'description': o['desc'], 'at': '%s:%s' % (o['file'], o['line']),
                               'counter_model_tail': trace_excerpt(o.get('trace'))} for o in failing[:4]]
    found = False
    candidates = []
    if g.get('replay') and failing:
        for o in failing[:3]:
            candidates.append((g['replay'], collect_inputs(o.get('trace')), gres['id']))
    # 2. bounded refuters from the real initial state
    groups = {x['id']: x for x in run.load_groups(all_units=True)}
    for rid in g.get('refuters', []):
        rg = groups.get(rid)
        if not rg:
            continue
        rr = run.run_group(rg, woven, os.path.join(scratch, 'refute'), want_trace=True)
        rf = [o for o in rr.get('obligations', []) if o['status'] == 'FAILURE' and not (o['desc'] or '').startswith('VG_CANARY')]
        rec.setdefault('refuters', []).append({'group': rid, 'status': rr['status'], 'bound': rg.get('bound'),
                                               'failed': [o['name'] + ' ' + (o['desc'] or '') for o in rf[:4]]})
        if rg.get('replay'):
            for o in rf[:3]:
                candidates.append((rg['replay'], collect_inputs(o.get('trace')), rid))
    rec['native'] = []
    for rc, vals, src in candidates:
        nat = run_native(rc, vals, scratch)
        nat['from_group'] = src
        nat['inputs'] = {k: (hexbytes(v) if isinstance(v, dict) else v) for k, v in vals.items()}
        rec['native'].append(nat)
        if nat.get('reproduced'):
            found = True
            rec['replay'] = {'driver': rc['driver'], 'argv': nat['argv'][1:], 'leaks': rc.get('leaks', False), 'sources': rc.get('sources')}
            break
    rec['failing_input_found'] = found
    if not found:
        rec['note'] = 'no-failing-input-found: the violation is the failed obligation above (it is discharged on the unchanged tree); no concrete input reproduced it natively within the refuter bounds'
    try:
        rec['repo_head'] = subprocess.check_output(['git', '-C', REPO, 'rev-parse', '--short', 'HEAD'], stderr=subprocess.DEVNULL).decode().strip()
        rec['repo_diff_stat'] = subprocess.check_output(['git', '-C', REPO, 'diff', '--stat'], stderr=subprocess.DEVNULL).decode()[-800:]
    except Exception:
        pass
    h = hashlib.sha1(json.dumps([pid, gres['id'], [f['name'] for f in fails]]).encode()).hexdigest()[:10]
    os.makedirs(os.path.join(VERIF, 'replays'), exist_ok=True)
    path = os.path.join(VERIF, 'replays', '%s-%s.json' % (pid, h))
    with open(path, 'w') as f:
        json.dump(rec, f, indent=1)
    return path, found

def replay_file(path):
    """./check <id> --replay <file>: rebuild the native driver from /repo and re-run the stored input."""
    import tempfile
    rec = json.load(open(path))
    print('replay of %s: group %s' % (rec.get('property'), rec.get('group')))
    for o in rec.get('verifier_output', []):
        print('  failed obligation: %s -- %s (%s)' % (o['obligation'], o['description'], o['at']))
    rp = rec.get('replay')
    if not rp:
        print('  no concrete input stored (no-failing-input-found); see verifier_output in the file')
        return 1
    scratch = tempfile.mkdtemp(prefix='lhasa-replay.', dir=os.environ.get('TMPDIR', '/tmp'))
    try:
        rc = {'driver': rp['driver'], 'args': rp['argv'], 'leaks': rp.get('leaks', False), 'sources': rp.get('sources')}
        nat = run_native(rc, {}, scratch)
        print(nat.get('output', nat.get('error', '')))
        if nat.get('reproduced'):
            print('VIOLATION property=%s replay=%s' % (rec.get('property'), path))
            return 1
        print('input no longer fails on the current tree')
        return 0
    finally:
        shutil.rmtree(scratch, ignore_errors=True)

"""Property-level orchestration: run groups, apply the exit protocol, write evidence, replay."""
import json, os, re, shutil, subprocess, sys, tempfile, time
import run, weave

VERIF = run.VERIF
REPO = run.REPO

def load_known():
    p = os.path.join(VERIF, 'known_findings.json')
    if not os.path.exists(p):
        return []
    return json.load(open(p)).get('findings', [])

def matches_known(pid, gres, fail, known):
    """A failure is a known finding if an *open* entry names the same property, group and obligation
    (function + description regex).  'fixed' entries never suppress anything."""
    for k in known:
        if k.get('status') != 'open' or k.get('property') != pid:
            continue
        if k.get('group') and not re.fullmatch(k['group'], gres['id']):
            continue
        if k.get('function') and k['function'] != fail.get('function'):
            continue
        if k.get('obligation') and not re.search(k['obligation'], (fail.get('name') or '') + ' ' + (fail.get('desc') or '')):
            continue
        return k
    return None

def git_head(path):
    try:
        return subprocess.check_output(['git', '-C', path, 'rev-parse', '--short', 'HEAD'], stderr=subprocess.DEVNULL).decode().strip()
    except Exception:
        return '?'

def write_evidence(pid, tier, seed, results, t0, assumptions, violations, weave_report, notes):
    proof = [r for r in results if r['level'] == 'proof']
    bounded = [r for r in results if r['level'] != 'proof']
    n_ob = sum(r.get('n_real', 0) for r in proof)
    n_dis = sum(r.get('n_real', 0) for r in proof if r['status'] == 'ok')
    n_bob = sum(r.get('n_real', 0) for r in bounded)
    n_bdis = sum(r.get('n_real', 0) for r in bounded if r['status'] == 'ok')
    meta = PROP_META.get(pid, {})
    # bounded groups marked "supplementary" in the plan (anchor-independent re-checks of something a proof group already
    # covers, input-producing refuters, cases outside the contract's stated precondition) do not lower the level; they
    # stay listed and counted under the bounded keys only
    core_bounded = [r for r in bounded if not r.get('supplementary')]
    all_proof = bool(proof) and not core_bounded and meta.get('level', 'other') == 'proof' \
        and all(r['status'] == 'ok' for r in proof)
    funcs = sorted(set(f for r in results for f in r['functions']))
    samples = []
    for r in results:
        obs = [o for o in r.get('obligations', []) if not (o['desc'] or '').startswith('VG_CANARY')]
        pick = [o for o in obs if 'postcondition' in (o['name'] or '') or 'invariant' in (o['name'] or '')
                or 'assertion' in (o['name'] or '') or 'decreases' in (o['name'] or '')][:3] or obs[:2]
        for o in pick:
            samples.append({'group': r['id'], 'obligation': o['name'], 'description': o['desc'],
                            'status': o['status'], 'at': '%s:%s' % (o['file'], o['line'])})
    by_backend = {}
    for r in results:
        by_backend.setdefault(r.get('backend') or 'none', 0.0)
        by_backend[r.get('backend') or 'none'] += r['solver_s']
    groups = [{'id': r['id'], 'level': r['level'], 'bound': r.get('bound'), 'supplementary': bool(r.get('supplementary')), 'status': r['status'],
               'route': r['route'], 'enforce': r.get('enforce'), 'replaced_by_contract': r.get('replace'),
               'backend': r.get('backend'), 'obligations': r.get('n_real', 0), 'canaries_failed_as_required': r.get('n_canary', 0),
               'solver_s': round(r['solver_s'], 1), 'build_s': round(r['build_s'], 1), 'functions': r['functions'],
               'reason': r['reason'][:300]} for r in results]
    cov = {
        'obligations': n_ob, 'discharged': n_dis,
        'bounded_obligations': n_bob, 'bounded_discharged': n_bdis,
        'checker_cmd': (results[0].get('cmd', '') if results else ''),
        'trusted_base': TRUSTED_BASE + meta.get('trusted', []),
        'functions_under_contract': funcs,
        'groups': groups,
        'solver_seconds_by_backend': {k: round(v, 1) for k, v in by_backend.items()},
        'samples': samples[:40],
        'explanation': meta.get('explanation', '') + (' ' + notes if notes else ''),
        'undecided_parts': meta.get('undecided', []),
        'weave': {'anchors_fired': weave_report.get('anchors', 0), 'files': sorted(weave_report.get('files', {}))},
        'repo_head': git_head(REPO), 'verif_head': git_head(VERIF),
    }
    ev = {'property_id': pid, 'tier': tier, 'seed': seed, 'level': 'proof' if all_proof else 'other',
          'coverage': cov, 'assumptions': assumptions + meta.get('assumptions', []),
          'wall_s': round(time.time() - t0, 1), 'violations': violations}
    os.makedirs(os.path.join(VERIF, 'evidence'), exist_ok=True)
    with open(os.path.join(VERIF, 'evidence', pid + '.json'), 'w') as f:
        json.dump(ev, f, indent=1)

TRUSTED_BASE = [
    'CBMC 6.11.0 front end, goto-instrument contract instrumentation (DFCC and loop contracts), MiniSat / cvc5 1.0 / z3 4.8 back ends',
    'bit-precise x86-64 LP64 machine arithmetic (nothing treated as mathematical integers)',
    'weaver insert-only guarantee (strip-and-compare on every run); gcc/clang agree with goto-cc on the same text',
    'absence of concurrency',
]

def load_meta():
    p = os.path.join(VERIF, 'meta', 'properties_meta.json')
    if os.path.exists(p):
        return json.load(open(p))
    return {}

PROP_META = load_meta()

def run_property(a):
    pid, tier = a.prop, a.tier
    seed = int(os.environ.get('VERIF_SEED', '0') or 0)
    t0 = time.time()
    if a.replay:
        import replay
        return replay.replay_file(a.replay)
    groups = run.load_groups(all_units=bool(a.only))
    sel = run.select(groups, pid, tier, a.only)
    if not sel:
        run.log('no groups for', pid, tier)
        return 2
    base = os.environ.get('TMPDIR', '/tmp')
    scratch = tempfile.mkdtemp(prefix='lhasa-verif.', dir=base)
    try:
        try:
            results, rep, woven = run.run_groups(sel, tier, scratch)
        except weave.WeaveError as e:
            print('UNDECIDED property=%s extraction break: %s' % (pid, e))
            return 2
        known = load_known()
        violations = 0
        undecided = []
        known_lines = []
        viol_lines = []
        for r in sorted(results, key=lambda r: r['id']):
            run.log('  %-34s %-9s %-7s %5.1fs+%5.1fs %4s obl  %s' % (r['id'], r['status'], r['level'], r['build_s'],
                    r['solver_s'], r.get('n_real', '-'), r['reason'][:160] if r['status'] != 'ok' else ''))
            if r['status'] == 'undecided':
                undecided.append(r)
            elif r['status'] == 'fail':
                g = [g for g in sel if g['id'] == r['id']][0]
                unknown_fails = []
                for f in r['failed']:
                    k = matches_known(pid, r, f, known)
                    if k:
                        line = 'KNOWN-FINDING: property=%s %s' % (pid, k['what'])
                        if line not in known_lines:
                            known_lines.append(line)
                    else:
                        unknown_fails.append(f)
                if unknown_fails and a.trace:
                    import replay
                    tr = run.run_group(run.tier_adjust(g, tier), woven, os.path.join(scratch, 'trace'), want_trace=True)
                    for o in tr.get('obligations', []):
                        if o['status'] == 'FAILURE' and not (o['desc'] or '').startswith('VG_CANARY'):
                            print('--- %s: %s (%s:%s)' % (o['name'], o['desc'], o['file'], o['line']))
                            for l in replay.trace_excerpt(o.get('trace'), 45):
                                print('     ' + l)
                    continue
                if unknown_fails:
                    import replay
                    path, found = replay.refute_and_replay(pid, run.tier_adjust(g, tier), r, unknown_fails, woven, scratch)
                    violations += 1
                    viol_lines.append('VIOLATION property=%s replay=%s%s' % (pid, path, '' if found else ' no-failing-input-found'))
        for l in known_lines:
            print(l)
        for l in viol_lines:
            print(l)
        if not a.no_evidence and not a.only:
            notes = ''
            if undecided:
                notes = 'UNDECIDED groups this run: ' + ', '.join(r['id'] for r in undecided)
            write_evidence(pid, tier, seed, results, t0, run.scan_assumptions(sel), violations, rep, notes)
        ok = sum(1 for r in results if r['status'] == 'ok')
        print('property=%s tier=%s groups=%d ok=%d failed=%d undecided=%d obligations=%d wall=%.0fs' % (
            pid, tier, len(results), ok, sum(1 for r in results if r['status'] == 'fail'), len(undecided),
            sum(r.get('n_real', 0) for r in results), time.time() - t0))
        if violations:
            return 1
        if undecided:
            for r in undecided:
                print('UNDECIDED property=%s group=%s: %s' % (pid, r['id'], r['reason'][:400].replace('\n', ' ')))
            return 2
        return 0
    finally:
        if a.keep:
            run.log('scratch kept:', scratch)
        else:
            shutil.rmtree(scratch, ignore_errors=True)

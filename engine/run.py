#!/usr/bin/env python3
"""Obligation-group runner: weave -> goto-cc -> goto-instrument (contracts) -> cbmc -> verdicts.

Exit protocol (see DESIGN.md 3.5):
  0  every obligation of every group of the property discharged, canaries failed as required
  1  some obligation came back FAILURE (definite counter-model)  -> VIOLATION line (or KNOWN-FINDING, exit 0)
  2  undecided: weave/compile/instrument error, timeout, solver ERROR/unknown, vacuity
"""
import json, os, re, resource, shutil, subprocess, sys, tempfile, time, glob, hashlib
from concurrent.futures import ThreadPoolExecutor

HERE = os.path.dirname(os.path.abspath(__file__))
VERIF = os.path.dirname(HERE)
REPO = os.environ.get('VERIF_REPO', '/repo')
sys.path.insert(0, HERE)
import weave

DEFAULT_CHECKS = ['--bounds-check', '--pointer-check', '--div-by-zero-check']
JOBS = int(os.environ.get('VERIF_JOBS', '16'))
# plan timeouts were measured on this machine; scale them so that a slower or busier machine does not turn a
# proof into an 'undecided' (a timeout is never a violation, but it would make the check unusable)
TIMEOUT_SCALE = float(os.environ.get('VERIF_TIMEOUT_SCALE', '2.5'))

def log(*a):
    print(*a, file=sys.stderr, flush=True)

# ------------------------------------------------------------------ plans -----------------------

def enabled_units():
    p = os.path.join(VERIF, 'meta', 'units_enabled.json')
    if os.path.exists(p):
        return set(json.load(open(p)))
    return None

def load_groups(all_units=False):
    groups = []
    en = None if all_units else enabled_units()
    for p in sorted(glob.glob(os.path.join(VERIF, 'plan', '*.json'))):
        try:
            d = json.load(open(p))
        except ValueError as e:
            if en is None:
                raise SystemExit('bad plan file %s: %s' % (p, e))
            continue
        if en is not None and d.get('unit', os.path.basename(p)[:-5]) not in en:
            continue
        common = d.get('common', {})
        for g in d['groups']:
            gg = dict(common); gg.update(g)
            gg['unit'] = d.get('unit', os.path.basename(p)[:-5])
            gg.setdefault('harness', d.get('harness'))
            gg.setdefault('tiers', ['quick', 'thorough'])
            gg.setdefault('route', 'plain')
            gg.setdefault('level', 'proof')
            gg.setdefault('backend', 'sat')
            gg.setdefault('timeout', 300)
            gg['timeout'] = int(gg['timeout'] * TIMEOUT_SCALE)
            gg.setdefault('mem_gb', 12)
            gg.setdefault('defs', [])
            gg.setdefault('replace', [])
            gg.setdefault('cbmc_flags', [])
            gg.setdefault('functions', [])
            groups.append(gg)
    ids = [g['id'] for g in groups]
    dup = set(i for i in ids if ids.count(i) > 1)
    if dup:
        raise SystemExit("duplicate group ids: %s" % dup)
    return groups

# ------------------------------------------------------------------ process helper --------------

def run_cmd(cmd, timeout, mem_gb, cwd=None, out_path=None):
    def limits():
        b = int(mem_gb * (1 << 30))
        resource.setrlimit(resource.RLIMIT_AS, (b, b))
        os.setsid()
    t0 = time.time()
    try:
        if out_path:
            with open(out_path, 'wb') as fo:
                p = subprocess.Popen(cmd, cwd=cwd, stdout=fo, stderr=subprocess.STDOUT, preexec_fn=limits)
                try:
                    p.wait(timeout=timeout)
                except subprocess.TimeoutExpired:
                    try:
                        os.killpg(p.pid, 9)
                    except Exception:
                        p.kill()
                    p.wait()
                    return 'timeout', '', time.time() - t0
            out = open(out_path, 'r', errors='replace').read()
            return p.returncode, out, time.time() - t0
        p = subprocess.Popen(cmd, cwd=cwd, stdout=subprocess.PIPE, stderr=subprocess.STDOUT, preexec_fn=limits)
        try:
            out, _ = p.communicate(timeout=timeout)
        except subprocess.TimeoutExpired:
            try:
                os.killpg(p.pid, 9)
            except Exception:
                p.kill()
            p.communicate()
            return 'timeout', '', time.time() - t0
        return p.returncode, out.decode('utf-8', 'replace'), time.time() - t0
    except OSError as e:
        return 'oserror', str(e), time.time() - t0

# ------------------------------------------------------------------ one group -------------------

def parse_cbmc_json(out):
    """Returns (results list, status string, messages)."""
    try:
        start = out.index('[')
        data = json.loads(out[start:])
    except Exception:
        # truncated json (killed) or text
        return None, None, out[-2000:]
    results = None
    status = None
    msgs = []
    for item in data:
        if not isinstance(item, dict):
            continue
        if 'result' in item:
            results = item['result']
        if 'cProverStatus' in item:
            status = item['cProverStatus']
        if item.get('messageType') in ('ERROR', 'WARNING'):
            msgs.append(item.get('messageType') + ': ' + str(item.get('messageText')))
    return results, status, '\n'.join(msgs)

def parse_cbmc_text(out):
    """Plain-text UI (used where --json-ui makes cbmc 6.11 abort while building the counterexample trace of the canary:
    simplify_member invariant on bit-field structs with the SMT back ends).  Same result shape as parse_cbmc_json."""
    results = []
    cur_file = cur_fn = None
    seen = False
    for line in out.splitlines():
        m = re.match(r'^(\S+) function (\S+)$', line)
        if m:
            cur_file, cur_fn = m.group(1), m.group(2)
            continue
        m = re.match(r'^\[(\S+)\] (?:line (\d+) )?(.*): (SUCCESS|FAILURE|ERROR|UNKNOWN)$', line)
        if m:
            results.append({'property': m.group(1), 'description': m.group(3), 'status': m.group(4),
                            'sourceLocation': {'file': cur_file, 'line': m.group(2), 'function': cur_fn}})
        if line.startswith('VERIFICATION '):
            seen = True
    if not seen or not results:
        return None, None, out[-2000:]
    return results, None, ''

def backend_flags(b):
    if b == 'sat':
        return []
    if b == 'cvc5':
        return ['--cvc5']
    if b == 'z3':
        return ['--z3']
    if b == 'kissat':
        return ['--external-sat-solver', 'kissat']
    raise ValueError(b)

def run_native_group(g, gdir, res):
    """route "native": a concrete scenario run against the command-line tool built (ASan/UBSan) from the tree under check.
    Used only to re-confirm KNOWN FINDINGS whose observable is the file system after a process run, which no contract in
    this framework expresses (kernel path resolution).  Never counted as proof; exit 1 of the driver = the scenario's
    obligation FAILED, 0 = it held, anything else = undecided."""
    t0 = time.time()
    lha = os.path.join(gdir, 'lha_native')
    cfg = os.path.join(gdir, 'cfg'); os.makedirs(cfg, exist_ok=True)
    if os.path.exists(os.path.join(REPO, 'config.h')):
        shutil.copyfile(os.path.join(REPO, 'config.h'), os.path.join(cfg, 'config.h'))
    else:
        open(os.path.join(cfg, 'config.h'), 'w').write('#define PACKAGE_STRING "Lhasa"\n')
    srcs = []
    for sub in ('lib', 'src'):
        for fn in sorted(os.listdir(os.path.join(REPO, sub))):
            if fn.endswith('.c') and fn not in ('bit_stream_reader.c', 'lh_new_decoder.c', 'pma_common.c', 'tree_decode.c', 'lha_arch_win32.c'):
                srcs.append(os.path.join(REPO, sub, fn))
    cmd = ['cc', '-O1', '-g', '-DHAVE_CONFIG_H', '-I', cfg, '-I', REPO, '-I', os.path.join(REPO, 'lib'), '-I', os.path.join(REPO, 'lib', 'public'),
           '-I', os.path.join(REPO, 'src')] + srcs + ['-o', lha]
    rc, out, t = run_cmd(cmd, 300, 8)
    if rc != 0:
        res['reason'] = 'native build of the command-line tool failed: ' + out[-600:]
        return res
    drv = os.path.join(gdir, 'drv')
    rc, out, t = run_cmd(['cc', '-O1', '-g', os.path.join(VERIF, 'replay', 'drv_%s.c' % g['driver']), '-o', drv], 120, 4)
    if rc != 0:
        res['reason'] = 'native build of the scenario driver failed: ' + out[-600:]
        return res
    work = os.path.join(gdir, 'work'); os.makedirs(work, exist_ok=True)
    rc, out, t = run_cmd([drv, lha, work], g['timeout'], 4)
    res['build_s'] = time.time() - t0 - t
    res['solver_s'] = t
    res['backend'] = 'native'
    res['cmd'] = 'cc <lib/*.c src/*.c of the tree under check> -o lha_native ; cc replay/drv_%s.c -o drv ; drv lha_native <work dir>' % g['driver']
    ob = dict(name=g['id'] + '.scenario.1', desc=g.get('obligation', 'native scenario'), status='SUCCESS' if rc == 0 else 'FAILURE',
              file='replay/drv_%s.c' % g['driver'], line=None, function='main', trace=None)
    res['obligations'] = [ob]
    res['n_real'] = 1
    res['n_canary'] = 0
    res['native_output'] = out[-1500:]
    if rc == 0:
        res['status'] = 'ok'
    elif rc == 1:
        res['status'] = 'fail'
        res['failed'] = [dict(name=ob['name'], desc=ob['desc'], file=ob['file'], line=None, function='main')]
        res['reason'] = 'FAILURE: %s (%s)' % (ob['name'], ob['desc'])
    else:
        res['reason'] = 'scenario driver could not run (rc=%s): %s' % (rc, out[-400:])
    return res

def run_group(g, woven, scratch, want_trace=False):
    """Returns dict: status ok|fail|undecided, obligations[], reason, times."""
    gid = g['id']
    gdir = os.path.join(scratch, 'g_' + re.sub(r'[^\w.-]', '_', gid))
    os.makedirs(gdir, exist_ok=True)
    res = dict(id=gid, status='undecided', reason='', obligations=[], solver_s=0.0, build_s=0.0,
               backend=None, level=g['level'], functions=g['functions'], props=g['props'],
               bound=g.get('bound'), supplementary=g.get('supplementary', False), route=g['route'], enforce=g.get('enforce'), replace=g['replace'])
    if g['route'] == 'native':
        return run_native_group(g, gdir, res)
    harness = os.path.join(VERIF, g['harness'])
    entry = g['entry']
    a_gb = os.path.join(gdir, 'a.gb')
    b_gb = os.path.join(gdir, 'b.gb')
    src_root = REPO if g.get('unwoven') else woven
    cc = ['goto-cc', '-DLHASA_VERIF', '-DHAVE_CONFIG_H', '-I', src_root, '-I', os.path.join(src_root, 'lib'),
          '-I', os.path.join(src_root, 'lib', 'public'), '-I', os.path.join(src_root, 'src'),
          '-I', os.path.join(VERIF, 'harness'), '-I', woven]
    if g.get('subst'):
        # reduced-size instantiation: a mechanical, must-fire-exactly-once textual substitution of a size constant of
        # the code (stated in the group's `bound`); the substituted copy shadows the original on the include path
        sdir = os.path.join(gdir, 'subst')
        for sb in g['subst']:
            srcp = os.path.join(src_root, sb['file'])
            dstp = os.path.join(sdir, sb['file'])
            try:
                text = open(dstp if os.path.exists(dstp) else srcp).read()
            except OSError as e:
                res['reason'] = 'subst: cannot read %s: %s' % (sb['file'], e)
                return res
            text2, n = re.subn(sb['re'], sb['to'], text, flags=re.M)
            if n != 1:
                res['reason'] = 'extraction break: subst /%s/ matched %d times in %s (must be exactly 1)' % (sb['re'], n, sb['file'])
                return res
            os.makedirs(os.path.dirname(dstp), exist_ok=True)
            open(dstp, 'w').write(text2)
        cc[2:2] = ['-I', sdir, '-I', os.path.join(sdir, 'lib'), '-I', os.path.join(sdir, 'src')]
    cc += ['-D' + d for d in g['defs']]
    cc += ['--function', entry, harness, '-o', a_gb]
    rc, out, t = run_cmd(cc, 120, 8)
    res['build_s'] += t
    if rc != 0:
        res['reason'] = 'goto-cc failed: ' + out[-1500:]
        return res
    route = g['route']
    if route == 'plain':
        b_gb = a_gb
    else:
        gi = ['goto-instrument']
        if route == 'dfcc':
            gi += ['--dfcc', entry]
            if g.get('enforce'):
                gi += ['--enforce-contract', g['enforce']]
            for r in g['replace']:
                gi += ['--replace-call-with-contract', r]
            if g.get('loop_contracts', True):
                gi += ['--apply-loop-contracts']
        elif route == 'legacy':
            # keep only what the entry reaches: loop contracts of unrelated functions must not interfere
            a1 = os.path.join(gdir, 'a1.gb')
            rc, out, t = run_cmd(['goto-instrument', '--drop-unused-functions', a_gb, a1], 120, 8)
            res['build_s'] += t
            if rc != 0:
                res['reason'] = 'goto-instrument --drop-unused-functions failed: ' + out[-800:]
                return res
            a_gb = a1
            for r in g['replace']:
                gi += ['--replace-call-with-contract', r]
            if g.get('enforce'):
                gi += ['--enforce-contract', g['enforce']]
            if g.get('loop_contracts', True):
                gi += ['--apply-loop-contracts']
        else:
            res['reason'] = 'unknown route ' + route
            return res
        gi += g.get('instrument_flags', [])
        gi += [a_gb, b_gb]
        rc, out, t = run_cmd(gi, 300, g['mem_gb'])
        res['build_s'] += t
        if rc != 0:
            res['reason'] = 'goto-instrument failed (rc=%s): %s' % (rc, out[-1500:])
            return res
        res['instrument_log'] = out[-600:]
    checks = g.get('checks', DEFAULT_CHECKS)
    backends = g['backend'] if isinstance(g['backend'], list) else [g['backend']]
    last_reason = ''
    for be in backends:
        text_ui = g.get('ui') == 'text'
        cmd = ['cbmc', '--drop-unused-functions'] + checks + g['cbmc_flags'] + backend_flags(be) + ([] if text_ui else ['--json-ui'])
        if want_trace:
            cmd += ['--trace']
        cmd += [b_gb]
        res['cmd'] = ' '.join(['goto-cc', '--function', entry, os.path.relpath(harness, VERIF)] +
                              ['-D' + d for d in g['defs']]) + ' ; ' + \
            (' '.join(gi[:-2]) + ' ; ' if route != 'plain' else '') + ' '.join(cmd[:-1])
        rc, out, t = run_cmd(cmd, g['timeout'], g['mem_gb'], out_path=os.path.join(gdir, 'cbmc.%s.json' % be))
        res['solver_s'] += t
        res['backend'] = be
        if rc == 'timeout':
            last_reason = 'timeout after %ds on %s' % (g['timeout'], be)
            continue
        results, status, msgs = parse_cbmc_text(out) if text_ui else parse_cbmc_json(out)
        if results is None:
            last_reason = 'no result from cbmc on %s (rc=%s): %s' % (be, rc, (msgs or out)[-1200:])
            continue
        if re.search(r'ignoring (forall|exists)', out):
            last_reason = 'quantifier ignored by back end ' + be
            continue
        obs = []
        for r in results:
            loc = r.get('sourceLocation', {})
            obs.append(dict(name=r.get('property'), desc=r.get('description'), status=r.get('status'),
                            file=loc.get('file'), line=loc.get('line'), function=loc.get('function'),
                            trace=r.get('trace') if want_trace else None))
        res['obligations'] = obs
        bad = [o for o in obs if o['status'] not in ('SUCCESS', 'FAILURE')]
        canaries = [o for o in obs if (o['desc'] or '').startswith('VG_CANARY')]
        real = [o for o in obs if not (o['desc'] or '').startswith('VG_CANARY')]
        failed = [o for o in real if o['status'] == 'FAILURE']
        # an unwinding assertion that fails means "this group's unwinding bound is too small for the code as it is now"
        # (e.g. a loop was added to a function the group treats as loop-free): undecided, not a violation -- unless a
        # genuine obligation fails as well
        unwind_fail = [o for o in failed if '.unwind.' in (o['name'] or '') or 'unwinding assertion' in (o['desc'] or '')]
        failed = [o for o in failed if o not in unwind_fail]
        if unwind_fail and not failed:
            last_reason = 'unwinding bound too small: %s' % unwind_fail[0]['name']
            continue
        # a frame check on a bare identifier that is not ghost state ("Check that pos is assignable") means the changed
        # function has a new local variable that the woven loop/function assigns clause does not list: locals are invisible
        # to callers, so this is a contract that no longer fits the code (undecided), never a property violation --
        # unless a genuine obligation fails as well
        local_frame = [o for o in failed if '.assigns.' in (o['name'] or '') and
                       re.match(r'^Check that (?!vg_)[A-Za-z_]\w* is assignable$', o['desc'] or '')]
        failed = [o for o in failed if o not in local_frame]
        if local_frame and not failed:
            last_reason = 'frame clause no longer lists a local of the changed code: %s (%s)' % (local_frame[0]['name'], local_frame[0]['desc'])
            continue
        if bad and not failed:
            # ERROR = solver said unknown; UNKNOWN without any definite failure = not determined
            last_reason = 'obligation status %s on %s: %s' % (bad[0]['status'], be, bad[0]['name'])
            continue
        res['n_real'] = len(real)
        res['n_canary'] = len(canaries)
        # missing function bodies (a change started to call a library function the harness has no contract stub for) and
        # failures of "layout" groups (which only pin a data layout that contract vocabulary relies on) say that the
        # machinery no longer fits the code, not that a property is violated: undecided
        # "[stub-limit]" assertions sit in harness stubs and only say "this stub models the ways the unchanged code uses
        # the library function, and the code now uses it differently": like a missing body, that is a limit of the
        # machinery, not a violation -- unless a genuine obligation fails as well
        stublim = [o for o in failed if '[stub-limit]' in (o['desc'] or '')]
        failed = [o for o in failed if o not in stublim]
        if stublim and not failed:
            last_reason = 'harness stub does not model a new use of a library function: %s' % '; '.join(sorted(set(o['desc'] for o in stublim)))[:300]
            continue
        nobody = [o for o in failed if '.no-body.' in (o['name'] or '') or (o['name'] or '').startswith('VG_SINK_NOT_MODELLED_')]
        if nobody:
            last_reason = 'no contract stub for a function the code now calls: %s' % ', '.join(sorted(set(o['name'] for o in nobody)))
            continue
        if failed and g.get('layout'):
            last_reason = 'layout assumption of the contract vocabulary no longer holds: %s' % '; '.join((o['desc'] or '') for o in failed[:3])
            continue
        if failed:
            res['status'] = 'fail'
            res['failed'] = [dict(name=o['name'], desc=o['desc'], file=o['file'], line=o['line'],
                                  function=o['function']) for o in failed]
            res['reason'] = 'FAILURE: ' + '; '.join('%s (%s)' % (o['name'], o['desc']) for o in failed[:6])
            return res
        if not canaries:
            res['reason'] = 'no canary in harness (vacuity guard missing)'
            return res
        dead = [o for o in canaries if o['status'] != 'FAILURE']
        if dead:
            res['reason'] = 'VACUOUS: canary not reachable: ' + ', '.join(o['desc'] for o in dead)
            return res
        if len(real) < g.get('min_obligations', 1):
            res['reason'] = 'only %d obligations, floor %d' % (len(real), g.get('min_obligations', 1))
            return res
        missing = [c for c in g.get('expect', []) if not any(c in (o['name'] or '') + ' ' + (o['desc'] or '') for o in real)]
        if missing:
            res['reason'] = 'expected obligation classes missing: %s' % missing
            return res
        res['status'] = 'ok'
        return res
    res['reason'] = last_reason
    return res

# ------------------------------------------------------------------ assumptions scan ------------

def scan_assumptions(groups):
    found = set()
    files = set(os.path.join(VERIF, g['harness']) for g in groups)
    for f in list(files):
        try:
            txt = open(f).read()
        except OSError:
            continue
        for inc in re.findall(r'#include "((?:h_|vg_)[\w.]+)"', txt):
            files.add(os.path.join(VERIF, 'harness', inc))
    for f in sorted(files):
        try:
            txt = open(f).read()
        except OSError:
            continue
        for m in re.finditer(r'/\*\s*ASSUME:\s*(.*?)\*/', txt, re.S):
            found.add(re.sub(r'\s+', ' ', m.group(1)).strip())
        n = len(re.findall(r'__CPROVER_assume', txt))
        if n:
            found.add('%s: %d __CPROVER_assume statements (harness preconditions / stub behaviours)' %
                      (os.path.relpath(f, VERIF), n))
    return sorted(found)

# ------------------------------------------------------------------ property run ----------------

def select(groups, pid, tier, only=None):
    if only:
        # debugging / refuter runs: select by id regardless of property and tier
        return [g for g in groups if any(re.search(o, g['id']) for o in only)]
    return [g for g in groups if pid in g['props'] and tier in g['tiers']]

def tier_adjust(g, tier):
    g = dict(g)
    t = g.get('tier_overrides', {}).get(tier)
    if t:
        g.update(t)
    return g

def run_groups(sel, tier, scratch, keep=False):
    sel = [tier_adjust(g, tier) for g in sel]
    exclude = {}
    results_all = []
    rep = None
    woven = None
    for attempt in range(3):
        woven = os.path.join(scratch, 'woven' if attempt == 0 else 'woven%d' % attempt)
        rep = weave.weave_tree(REPO, os.path.join(VERIF, 'contracts'), woven, exclude or None)
        results, retry = run_groups_once(sel, tier, scratch, woven, rep)
        # contract text of a function no longer compiles against its changed body (renamed/removed local, changed type):
        # goto-cc names the function and the spec line.  Treat that function like one whose anchors do not fire --
        # re-weave without its clauses and re-run the groups that could not be built, so that one changed function does
        # not silence every other group of its translation unit.
        newly = {}
        for r in retry:
            m = re.search(r"\.spec: In function '(\w+)'", r['reason'])
            if m and m.group(1) not in exclude:
                newly[m.group(1)] = 'contract text no longer compiles: ' + ' '.join(r['reason'].split())[:200]
        if not newly:
            results_all += results + retry
            break
        for fn, why in newly.items():
            log('WEAVE: contract clauses of %s no longer compile; re-weaving without them' % fn)
        exclude.update(newly)
        results_all += results
        ids = set(r['id'] for r in retry)
        sel = [g for g in sel if g['id'] in ids]
    else:
        results_all += retry
    return results_all, rep, woven

def run_groups_once(sel, tier, scratch, woven, rep):
    # functions whose contract anchors no longer fire (code changed shape): contract-instrumented groups that
    # involve them cannot be decided; plain-route groups still run the real code
    broken = {}
    for relpath, fn, why in rep.get('skipped', []):
        broken[fn] = why
        log('WEAVE: contract anchors of %s in %s do not fire: %s' % (fn, relpath, why))
    pre = []
    if broken:
        keep = []
        for g in sel:
            names = set([g.get('enforce')] + list(g.get('replace', [])) + list(g.get('functions', []))) - {None}
            hit = [n for n in names if n in broken]
            if hit and g['route'] != 'plain':
                pre.append(dict(id=g['id'], status='undecided', reason='extraction break: contract anchors of %s do not fire (%s)' % (hit[0], broken[hit[0]]),
                                obligations=[], solver_s=0.0, build_s=0.0, backend=None, level=g['level'], functions=g['functions'],
                                props=g['props'], bound=g.get('bound'), supplementary=g.get('supplementary', False), route=g['route'], enforce=g.get('enforce'), replace=g.get('replace', [])))
            else:
                keep.append(g)
        sel = keep
    # longest first
    sel = sorted(sel, key=lambda g: -g.get('cost', g['timeout']))
    # thorough tier contains the memory-hungry groups (64 KiB .. 1 MiB rings, 1100-byte path buffers): fewer at a time
    jobs = JOBS if tier == 'quick' else min(JOBS, int(os.environ.get('VERIF_JOBS_THOROUGH', '5')))
    with ThreadPoolExecutor(max_workers=jobs) as ex:
        futs = [ex.submit(run_group, g, woven, scratch) for g in sel]
        results = [f.result() for f in futs]
    retry = [r for r in results if r['status'] == 'undecided' and r['reason'].startswith('goto-cc failed') and '.spec: In function' in r['reason']]
    done = [r for r in results if r not in retry]
    return done + pre, retry

def main(argv):
    import argparse
    ap = argparse.ArgumentParser()
    ap.add_argument('prop')
    ap.add_argument('--tier', default=os.environ.get('VERIF_TIER', 'quick'))
    ap.add_argument('--only', action='append')
    ap.add_argument('--keep', action='store_true')
    ap.add_argument('--replay')
    ap.add_argument('--no-evidence', action='store_true')
    ap.add_argument('--trace', action='store_true', help='debug: print counter-model tails of failed obligations')
    a = ap.parse_args(argv)
    import verdict
    return verdict.run_property(a)

if __name__ == '__main__':
    try:
        rc = main(sys.argv[1:])
    except SystemExit:
        raise
    except BaseException as e:   # engine trouble is never a violation
        import traceback
        traceback.print_exc()
        print('UNDECIDED engine error: %r' % (e,))
        rc = 2
    sys.exit(rc)

#!/usr/bin/env python3
"""Contract weaver.

Copies /repo's *current working tree* (lib/, src/, config.h) to a scratch directory and inserts
the contract clauses of /verif/contracts/**.spec at their anchors.  Insert-only: after weaving,
removing the inserted spans must reproduce the original bytes (checked here on every run).

Spec syntax (one file per source file, contracts/<relpath>.spec):

    # comment line (only outside a block, or a line starting with '#:' inside)
    @fn NAME
    <clause text ...>                  inserted between ')' of NAME's parameter list and its '{'
    @loop NAME K <header-prefix>
    <clause text ...>                  inserted after the K-th loop head of NAME (1-based, source
                                       order; for/while: after ')', do: after 'do').  The loop head
                                       text, whitespace-normalised, must start with <header-prefix>.
    @ghost NAME before|after /REGEX/
    <statement text ...>               inserted before/after the unique match of REGEX inside the
                                       body of NAME.  Ghost text may only assign identifiers
                                       that start with vg_ (checked lexically).
    @entry NAME
    <statement text ...>               ghost statement at the very start of NAME's body, after '{'
                                       (C89 declarations first is not an issue for goto-cc).

Every anchor must fire exactly once; otherwise WeaveError (exit 2 upstream, never a violation).
"""
import os, re, shutil, sys

class WeaveError(Exception):
    pass

OPEN = "/*VG<*/"
CLOSE = "/*>VG*/"

# ------------------------------------------------------------------ C masking ------------------

def mask_c(text):
    """Return text of same length with comments, string/char literals and preprocessor lines
    blanked (newlines kept), and with #else/#elif branches blanked too (so braces balance)."""
    out = list(text)
    n = len(text)
    i = 0
    def blank(a, b):
        for k in range(a, b):
            if out[k] != '\n':
                out[k] = ' '
    line_start = True
    while i < n:
        c = text[i]
        if c == '/' and i + 1 < n and text[i+1] == '/':
            j = text.find('\n', i)
            j = n if j < 0 else j
            blank(i, j); i = j; continue
        if c == '/' and i + 1 < n and text[i+1] == '*':
            j = text.find('*/', i + 2)
            j = n if j < 0 else j + 2
            blank(i, j); i = j; continue
        if c == '"' or c == "'":
            j = i + 1
            while j < n and text[j] != c:
                if text[j] == '\\':
                    j += 1
                j += 1
            blank(i, min(j + 1, n)); i = j + 1; continue
        if c == '#' and line_start:
            j = i
            while True:
                k = text.find('\n', j)
                if k < 0:
                    k = n; break
                if text[k-1] == '\\':
                    j = k + 1; continue
                break
            blank(i, k); i = k; continue
        if c == '\n':
            line_start = True
        elif not c.isspace():
            line_start = False
        i += 1
    masked = ''.join(out)
    # blank #else / #elif branches (structure view only)
    out = list(masked)
    stack = []
    pos = 0
    for m in re.finditer(r'^[ \t]*#[ \t]*(if|ifdef|ifndef|else|elif|endif)\b.*$', text, re.M):
        kind = m.group(1)
        if kind in ('if', 'ifdef', 'ifndef'):
            stack.append(None)
        elif kind in ('else', 'elif'):
            if stack and stack[-1] is None:
                stack[-1] = m.start()
        elif kind == 'endif':
            if stack:
                s = stack.pop()
                if s is not None:
                    for k in range(s, m.end()):
                        if out[k] != '\n':
                            out[k] = ' '
    return ''.join(out)

def match_close(masked, i, op, cl):
    depth = 0
    n = len(masked)
    while i < n:
        c = masked[i]
        if c == op:
            depth += 1
        elif c == cl:
            depth -= 1
            if depth == 0:
                return i
        i += 1
    raise WeaveError("unbalanced %s%s" % (op, cl))

KEYWORDS = {'if', 'for', 'while', 'switch', 'return', 'sizeof', 'do', 'else'}

def find_functions(text, masked=None):
    """name -> dict(rparen=index of ')' closing the parameter list, lbrace, rbrace)."""
    if masked is None:
        masked = mask_c(text)
    funcs = {}
    depth = 0
    i = 0
    n = len(masked)
    ident = re.compile(r'[A-Za-z_]\w*')
    while i < n:
        c = masked[i]
        if c == '{':
            depth += 1; i += 1; continue
        if c == '}':
            depth -= 1; i += 1; continue
        if depth == 0 and (c.isalpha() or c == '_'):
            m = ident.match(masked, i)
            name = m.group(0)
            j = m.end()
            k = j
            while k < n and masked[k].isspace():
                k += 1
            if k < n and masked[k] == '(' and name not in KEYWORDS:
                rp = match_close(masked, k, '(', ')')
                q = rp + 1
                while q < n and masked[q].isspace():
                    q += 1
                if q < n and masked[q] == '{':
                    rb = match_close(masked, q, '{', '}')
                    if name in funcs:
                        raise WeaveError("function %s defined twice" % name)
                    funcs[name] = dict(rparen=rp, lbrace=q, rbrace=rb)
                    i = rb + 1
                    continue
                i = rp + 1
                continue
            i = j
            continue
        i += 1
    return funcs

def find_loops(masked, lbrace, rbrace):
    """Loop heads inside a body, in source order: list of (insert_pos, head_start, head_end)."""
    loops = []
    pending_do = 0
    for m in re.finditer(r'\b(for|while|do)\b', masked[lbrace:rbrace]):
        kw = m.group(1)
        s = lbrace + m.start()
        e = lbrace + m.end()
        if kw == 'do':
            loops.append((e, s, e))
            pending_do += 1
            continue
        k = e
        while masked[k].isspace():
            k += 1
        if masked[k] != '(':
            continue
        rp = match_close(masked, k, '(', ')')
        if kw == 'while':
            q = rp + 1
            while masked[q].isspace():
                q += 1
            if masked[q] == ';':
                if pending_do <= 0:
                    raise WeaveError("while(...); without do at offset %d" % s)
                pending_do -= 1
                continue
        loops.append((rp + 1, s, rp + 1))
    return loops

# ------------------------------------------------------------------ spec parsing ---------------

def parse_spec(path):
    entries = []
    cur = None
    with open(path) as f:
        for ln, line in enumerate(f, 1):
            if line.startswith('@'):
                parts = line.rstrip('\n').split(None, 3)
                kind = parts[0]
                if kind == '@fn' or kind == '@entry':
                    cur = dict(kind=kind[1:], fn=parts[1], line=ln, text=[])
                elif kind == '@loop':
                    hdr = line.rstrip('\n').split(None, 3)
                    cur = dict(kind='loop', fn=hdr[1], k=int(hdr[2]),
                               prefix=(hdr[3] if len(hdr) > 3 else ''), line=ln, text=[])
                elif kind == '@top':
                    m = re.match(r'@top\s+(before|after)\s+/(.*)/\s*$', line)
                    if not m:
                        raise WeaveError("%s:%d: bad @top" % (path, ln))
                    cur = dict(kind='top', fn=None, where=m.group(1), regex=m.group(2), line=ln, text=[])
                elif kind == '@ghost':
                    m = re.match(r'@ghost\s+(\w+)\s+(before|after)\s+/(.*)/\s*$', line)
                    if not m:
                        raise WeaveError("%s:%d: bad @ghost" % (path, ln))
                    cur = dict(kind='ghost', fn=m.group(1), where=m.group(2), regex=m.group(3),
                               line=ln, text=[])
                else:
                    raise WeaveError("%s:%d: unknown directive %s" % (path, ln, kind))
                entries.append(cur)
                continue
            if cur is None:
                if line.strip() == '' or line.startswith('#'):
                    continue
                raise WeaveError("%s:%d: text outside a block" % (path, ln))
            if line.startswith('#:'):
                continue
            cur['text'].append(line)
    for e in entries:
        while e['text'] and e['text'][-1].strip() == '':
            e['text'].pop()
        e['text'] = ''.join(e['text'])
    return entries

ASSIGN_RE = re.compile(r'(?<![=!<>+\-*/%&|^])(=|\+=|-=|\*=|/=|%=|&=|\|=|\^=|<<=|>>=)(?!=)')

def check_ghost_text(text, where):
    """Lexical rule: every assignment / ++ / -- in ghost text targets an lvalue whose base
    identifier starts with vg_.  Calls are allowed only to __CPROVER_* and VG_* macros."""
    m = mask_c(text)
    # strip preprocessor already blanked.  Find calls.
    for c in re.finditer(r'\b([A-Za-z_]\w*)\s*\(', m):
        name = c.group(1)
        if name in ('if', 'while', 'for', 'sizeof', 'switch', 'return'):
            continue
        if not (name.startswith('__CPROVER_') or name.startswith('VG_') or name.startswith('vg_')):
            raise WeaveError("%s: ghost text calls %s()" % (where, name))
    for a in ASSIGN_RE.finditer(m):
        # walk back to find the base identifier of the lvalue
        j = a.start() - 1
        depth = 0
        while j >= 0:
            ch = m[j]
            if ch in ')]':
                depth += 1
            elif ch in '([':
                if depth == 0:
                    break
                depth -= 1
            elif depth == 0 and ch in ';{},?:':
                break
            j -= 1
        lhs = m[j+1:a.start()].strip()
        base = re.match(r'[\s(*]*([A-Za-z_]\w*)', lhs)
        # declarations like "int vg_x = 0" / "size_t vg_k = ..."
        ids = re.findall(r'[A-Za-z_]\w*', lhs.split('[')[0])
        target = None
        for idn in ids:
            if idn.startswith('vg_'):
                target = idn; break
        if target is None:
            raise WeaveError("%s: ghost text assigns non-ghost lvalue '%s'" % (where, lhs))
    for a in re.finditer(r'(\+\+|--)', m):
        ctx = m[max(0, a.start()-40):a.end()+40]
        if 'vg_' not in ctx:
            raise WeaveError("%s: ghost ++/-- on non-ghost" % where)

def check_top_text(text, where):
    """File-level ghost text: declarations of vg_ objects only (no function bodies)."""
    m = mask_c(text)
    if re.search(r'\)\s*\{', m):
        raise WeaveError("%s: @top text may not contain function bodies" % where)
    # split into top-level declarations (brace depth 0) and require a vg_ name in each
    depth = 0
    cur = ''
    for ch in m:
        if ch == '{':
            depth += 1
        elif ch == '}':
            depth -= 1
        if ch == ';' and depth == 0:
            if cur.strip() and 'vg_' not in cur:
                raise WeaveError("%s: @top declares a non-ghost name: %s" % (where, cur.strip()))
            cur = ''
        else:
            cur += ch

# ------------------------------------------------------------------ weaving --------------------

def norm_ws(s):
    return re.sub(r'\s+', ' ', s).strip()

def weave_text(text, entries, relpath, specpath, skipped=None, exclude=None):
    """skipped: None = strict (any anchor failure raises); a list = lenient: an entry whose anchor does not
    fire is left out, together with every other entry of the same function, and recorded in the list as
    (relpath, function, reason).  Groups that enforce/replace/apply loop contracts of such a function are
    reported undecided by the runner; groups that run the function as plain code are unaffected."""
    masked = mask_c(text)
    funcs = find_functions(text, masked)
    if skipped is not None:
        bad = {}
        # functions whose woven clauses no longer COMPILE against the changed body (found by the runner: goto-cc names
        # the function and the spec line) are treated like functions whose anchors do not fire
        for e in entries:
            if exclude and e['fn'] in exclude:
                bad.setdefault(e['fn'], exclude[e['fn']])
        for e in entries:
            if e['fn'] in bad:
                continue
            try:
                weave_text(text, [e], relpath, specpath, None)
            except WeaveError as ex:
                bad.setdefault(e['fn'], str(ex))
        if bad:
            for fn, why in bad.items():
                skipped.append((relpath, fn, why))
            entries = [e for e in entries if e['fn'] not in bad]
    inserts = []   # (pos, order, string)
    order = 0
    for e in entries:
        fn = e['fn']
        if e['kind'] == 'top':
            where = "%s:%d" % (specpath, e['line'])
            check_top_text(e['text'], where)
            ms = list(re.finditer(e['regex'], text))
            if len(ms) != 1:
                raise WeaveError("%s: top anchor /%s/ matched %d times in %s" % (where, e['regex'], len(ms), relpath))
            pos = ms[0].start() if e['where'] == 'before' else ms[0].end()
            lineno = text.count('\n', 0, pos) + 1
            s = ("\n" + OPEN + "\n#line %d \"%s\"\n" % (e['line'] + 1, specpath) + e['text'] +
                 ("" if e['text'].endswith('\n') else "\n") +
                 "#line %d \"%s\"\n" % (lineno, relpath) + CLOSE)
            inserts.append((pos, order, s))
            order += 1
            continue
        if fn not in funcs:
            raise WeaveError("%s:%d: function %s not found in %s" % (specpath, e['line'], fn, relpath))
        f = funcs[fn]
        where = "%s:%d" % (specpath, e['line'])
        if e['kind'] == 'fn':
            pos = f['rparen'] + 1
        elif e['kind'] == 'entry':
            check_ghost_text(e['text'], where)
            pos = f['lbrace'] + 1
        elif e['kind'] == 'loop':
            loops = find_loops(masked, f['lbrace'], f['rbrace'])
            if e['k'] < 1 or e['k'] > len(loops):
                raise WeaveError("%s: %s has %d loops, wanted #%d" % (where, fn, len(loops), e['k']))
            pos, hs, he = loops[e['k'] - 1]
            head = norm_ws(text[hs:he])
            if not head.startswith(norm_ws(e['prefix'])):
                raise WeaveError("%s: loop %d of %s is '%s', expected prefix '%s'" %
                                 (where, e['k'], fn, head, e['prefix']))
        elif e['kind'] == 'ghost':
            check_ghost_text(e['text'], where)
            body = text[f['lbrace']:f['rbrace'] + 1]
            ms = list(re.finditer(e['regex'], body))
            if len(ms) != 1:
                raise WeaveError("%s: ghost anchor /%s/ matched %d times in %s" %
                                 (where, e['regex'], len(ms), fn))
            pos = f['lbrace'] + (ms[0].start() if e['where'] == 'before' else ms[0].end())
        else:
            raise WeaveError("bad entry kind")
        lineno = text.count('\n', 0, pos) + 1
        s = ("\n" + OPEN + "\n#line %d \"%s\"\n" % (e['line'] + 1, specpath) + e['text'] +
             ("" if e['text'].endswith('\n') else "\n") +
             "#line %d \"%s\"\n" % (lineno, relpath) + CLOSE)
        inserts.append((pos, order, s))
        order += 1
    inserts.sort()
    out = []
    last = 0
    for pos, _, s in inserts:
        out.append(text[last:pos]); out.append(s); last = pos
    out.append(text[last:])
    woven = ''.join(out)
    if strip_woven(woven) != text:
        raise WeaveError("strip-and-compare failed for %s" % relpath)
    return woven, funcs

STRIP_RE = re.compile(r'\n' + re.escape(OPEN) + r'.*?' + re.escape(CLOSE), re.S)

def strip_woven(woven):
    return STRIP_RE.sub('', woven)

def weave_tree(repo, contracts_dir, dest, exclude=None):
    """Copy repo/{lib,src,config.h,test/*.h} to dest and weave every spec.  Returns a report."""
    os.makedirs(dest, exist_ok=True)
    report = {'files': {}, 'anchors': 0}
    for sub in ('lib', 'src'):
        for root, dirs, files in os.walk(os.path.join(repo, sub)):
            rel = os.path.relpath(root, repo)
            if '.libs' in rel or '.deps' in rel:
                continue
            for fn in files:
                if fn.endswith(('.c', '.h')):
                    os.makedirs(os.path.join(dest, rel), exist_ok=True)
                    shutil.copyfile(os.path.join(root, fn), os.path.join(dest, rel, fn))
    if os.path.exists(os.path.join(repo, 'config.h')):
        shutil.copyfile(os.path.join(repo, 'config.h'), os.path.join(dest, 'config.h'))
    else:
        open(os.path.join(dest, 'config.h'), 'w').write('#define PACKAGE_STRING "Lhasa"\n')
    for root, dirs, files in os.walk(contracts_dir):
        for fn in sorted(files):
            if not fn.endswith('.spec'):
                continue
            specpath = os.path.join(root, fn)
            rel = os.path.relpath(specpath, contracts_dir)[:-len('.spec')]
            src = os.path.join(repo, rel)
            if not os.path.exists(src):
                raise WeaveError("spec %s: source %s missing" % (specpath, src))
            text = open(src, encoding='latin-1').read()
            entries = parse_spec(specpath)
            woven, funcs = weave_text(text, entries, rel, os.path.relpath(specpath, os.path.dirname(contracts_dir)),
                                      report.setdefault('skipped', []), exclude)
            with open(os.path.join(dest, rel), 'w', encoding='latin-1') as f:
                f.write(woven)
            report['files'][rel] = {'anchors': len(entries), 'functions': sorted(funcs)}
            report['anchors'] += len(entries)
    return report

if __name__ == '__main__':
    repo, cdir, dest = sys.argv[1:4]
    try:
        r = weave_tree(repo, cdir, dest)
    except WeaveError as e:
        print("WEAVE-ERROR:", e, file=sys.stderr)
        sys.exit(2)
    print("woven %d anchors in %d files" % (r['anchors'], len(r['files'])))

/* C08/C12/C05, bounded and anchor-independent: the real decode_extended_headers (lib/lha_file_header.c, unwoven) on a raw
   header block of at most VG_XC_N bytes with ANY content, level 1/2 (16-bit length fields) or 3 (32-bit), any start
   offset the callers can pass.  lha_ext_header_decode is a checking stub: every (type, data, length) it is handed must
   lie inside the block (C08), must be exactly the bytes the chain's own length fields delimit (C05), and a chain whose
   length field is shorter than its own size or reaches past the block must be rejected (C12).  Plain route: a
   restructured loop / different bookkeeping variables are still decided; the counterexample is a concrete block. */
#include "vg_common.h"
#include <string.h>
#ifndef VG_XC_N
#define VG_XC_N 24
#endif
#include "lib/lha_input_stream.h"
#include "lib/lha_file_header.h"
#include "lib/ext_header.h"

static uint8_t *vg_raw; static size_t vg_rawlen;
static unsigned vg_calls;
static size_t vg_exp_off;          /* offset of the length field of the extended header expected next */
static unsigned vg_fs;             /* size of the length fields */
static int vg_chain_bad;

/* ASSUME: stand-in for lib/ext_header.c lha_ext_header_decode (its own unit proves the decoders under the precondition
   checked here: data[0..data_len) readable).  Returns any value; changes nothing in the block. */
int lha_ext_header_decode(LHAFileHeader *header, uint8_t num, uint8_t *data, size_t data_len)
{
	size_t len;
	(void) header;
	__CPROVER_assert(__CPROVER_same_object(data, vg_raw) && VG_OFF(data) >= VG_OFF(vg_raw) && VG_OFF(data) - VG_OFF(vg_raw) <= vg_rawlen &&
	                 data_len <= vg_rawlen - (VG_OFF(data) - VG_OFF(vg_raw)),
	                 "C08 extended-header chain: the data handed to a decoder lies inside the header block");
	/* what the format says the next header is: at vg_exp_off a length field L (covers type byte, data and the NEXT length field) */
	__CPROVER_assert(vg_exp_off + vg_fs + 1 <= vg_rawlen, "C12 extended-header chain: a header is only decoded if its length field and type byte are inside the block");
	len = vg_fs == 4 ? ((size_t) vg_raw[vg_exp_off] | ((size_t) vg_raw[vg_exp_off + 1] << 8) | ((size_t) vg_raw[vg_exp_off + 2] << 16) | ((size_t) vg_raw[vg_exp_off + 3] << 24))
	                 : ((size_t) vg_raw[vg_exp_off] | ((size_t) vg_raw[vg_exp_off + 1] << 8));
	__CPROVER_assert(len >= vg_fs + 1 && len <= vg_rawlen - vg_exp_off - vg_fs, "C12 extended-header chain: a decoded header's length is at least its fixed part and ends (with the next length field) inside the block");
	__CPROVER_assert(VG_OFF(data) == VG_OFF(vg_raw) + vg_exp_off + vg_fs + 1 && num == vg_raw[vg_exp_off + vg_fs] && data_len == len - vg_fs - 1,
	                 "C05 extended-header chain: type byte and data are exactly what the length field delimits, in chain order");
	vg_exp_off += len;
	vg_calls++;
	return nondet_int();
}
int lha_input_stream_read(LHAInputStream *stream, void *buf, size_t buf_len) { (void) stream; (void) buf; (void) buf_len; return 0; }
void lha_crc16_buf(uint16_t *crc, uint8_t *buf, size_t buf_len) { (void) buf; (void) buf_len; *crc = nondet_ushort(); }

#include "lib/lha_endian.c"
#include "lib/lha_file_header.c"

uint8_t vg_in_xc[VG_XC_N];
size_t vg_in_xclen;
unsigned vg_in_xclevel, vg_in_xcoff;

void h_extchain_bounded(void)
{
	LHAFileHeader *h;
	size_t k, off, len;
	int r, spec_ok = 1, ended = 0;
	for (k = 0; k < VG_XC_N; k++) vg_in_xc[k] = nondet_uchar();
	vg_in_xclen = nondet_size_t(); vg_in_xclevel = nondet_uint(); vg_in_xcoff = nondet_uint();
	__CPROVER_assume(vg_in_xclevel >= 1 && vg_in_xclevel <= 3);
	vg_fs = vg_in_xclevel == 3 ? 4 : 2;
	/* callers: level 1: offset = header_len (>= 25+2-2...) with the block extended by the ext area; level 2: 24 of >= 26; level 3: 28 of >= 32.
	   What they all guarantee is offset + field size <= raw_data_len. */
	__CPROVER_assume(vg_in_xclen <= VG_XC_N && vg_in_xcoff <= VG_XC_N && (size_t) vg_in_xcoff + vg_fs <= vg_in_xclen);
	h = malloc(sizeof(LHAFileHeader) + vg_in_xclen);
	__CPROVER_assume(h != NULL);
	h->raw_data = (uint8_t *) (h + 1);
	h->raw_data_len = vg_in_xclen;
	h->header_level = (uint8_t) vg_in_xclevel;
	for (k = 0; k < VG_XC_N; k++) if (k < vg_in_xclen) h->raw_data[k] = vg_in_xc[k];
	vg_raw = h->raw_data; vg_rawlen = vg_in_xclen; vg_calls = 0; vg_exp_off = vg_in_xcoff;
	r = decode_extended_headers(&h, vg_in_xcoff);
	/* the format's verdict, computed directly: walk the chain */
	off = vg_in_xcoff;
	for (k = 0; k < VG_XC_N / 3 + 2; k++) {
		if (!ended && spec_ok) {
			if (off + vg_fs > vg_in_xclen) { ended = 1; }
			else {
				len = vg_fs == 4 ? ((size_t) vg_in_xc[off] | ((size_t) vg_in_xc[off + 1] << 8) | ((size_t) vg_in_xc[off + 2] << 16) | ((size_t) vg_in_xc[off + 3] << 24))
				                 : ((size_t) vg_in_xc[off] | ((size_t) vg_in_xc[off + 1] << 8));
				if (len == 0) ended = 1;
				else if (len < vg_fs + 1 || len > vg_in_xclen - off - vg_fs) spec_ok = 0;
				else off += len;
			}
		}
	}
	__CPROVER_assert((r != 0) == (spec_ok != 0), "C12 extended-header chain: accepted exactly when every length field obeys the format's rules");
	__CPROVER_assert(r == 0 || vg_exp_off == off, "C05 extended-header chain: every header of an accepted chain was handed to the decoder, none skipped or repeated");
	VG_CANARY("extchain_bounded");
}

/* C17 (and the CRC lemmas C07/C14 rely on): lib/crc16.c under contract. */
#include "vg_common.h"

#define VG_NMAX 65536
/* ghost: vg_g[j] = CRC state after the first j bytes of the arena vg_buf */
uint16_t vg_g[VG_NMAX + 1];

/* One step of the checksum in table form (contract vocabulary; identified with the
   bitwise definition REF by group crc16.tbl_eq_ref). */
#define TBL_STEP(c, b) \
  ((uint16_t)(((((uint16_t)(c)) >> 8) ^ crc16_table[(((uint16_t)(c)) ^ ((uint8_t)(b))) & 0xff]) & 0xffff))

#include "lib/crc16.c"

/* CRC-16/ARC, bit by bit, from the property statement: reflected polynomial 0xA001,
   no final inversion. */
static uint16_t REF(uint16_t c, uint8_t b)
{
	unsigned k;
	c ^= b;
	for (k = 0; k < 8; k++) {
		if (c & 1) c = (uint16_t)((c >> 1) ^ 0xA001);
		else       c = (uint16_t)(c >> 1);
	}
	return c;
}

/* L1: the real routine on a 1-byte buffer == bitwise definition, all 2^24 (state, byte). */
void h_crc_step(void)
{
	uint16_t c = nondet_ushort(), c0;
	uint8_t b = nondet_uchar();
	c0 = c;
	lha_crc16_buf(&c, &b, 1);
	__CPROVER_assert(c == REF(c0, b), "C17 step: lha_crc16_buf on one byte equals bitwise CRC-16/ARC step");
	VG_CANARY("crc_step end");
}

/* L1b: contract vocabulary TBL_STEP == REF for all (state, byte); also pins every table entry. */
void h_tbl_eq_ref(void)
{
	uint16_t c = nondet_ushort();
	uint8_t b = nondet_uchar();
	__CPROVER_assert(TBL_STEP(c, b) == REF(c, b), "C17 lemma: table step equals bitwise step");
	__CPROVER_assert(sizeof(crc16_table) / sizeof(crc16_table[0]) == 256, "C17 table has 256 entries");
	VG_CANARY("tbl_eq_ref end");
}

/* L1c: zero-length call leaves the state unchanged */
void h_crc_zero(void)
{
	uint16_t c = nondet_ushort(), c0;
	uint8_t b;
	c0 = c;
	lha_crc16_buf(&c, &b, 0);
	__CPROVER_assert(c == c0, "C17 zero-length call is the identity");
	VG_CANARY("crc_zero end");
}

/* L2: whole-buffer contract (DFCC, enforced). */
void h_crc_buf(void)
{
	uint16_t *crc;
	uint8_t *buf;
	size_t n;
	lha_crc16_buf(crc, buf, n);
	VG_CANARY("crc_buf end");
}

/* L3 (bounded, SAT, real code unwound): a buffer of n <= 8 bytes fed as two pieces, any split point,
   ends in the same state as one call on the whole.  The unbounded statement follows from L2 by the
   index-shift law of folds (the ghost sequence of the second piece is the whole sequence shifted by k);
   that re-indexing step is beyond what the installed SMT back ends instantiate (DESIGN.md C17). */
uint8_t vg_in_sb[8];
uint16_t vg_in_sc;
size_t vg_in_sn, vg_in_sk;
void h_crc_split(void)
{
	uint16_t c1, c2;
	size_t j;
	for (j = 0; j < 8; j++) vg_in_sb[j] = nondet_uchar();
	vg_in_sc = nondet_ushort();
	vg_in_sn = nondet_size_t(); vg_in_sk = nondet_size_t();
	__CPROVER_assume(vg_in_sn <= 8 && vg_in_sk <= vg_in_sn);
	c1 = vg_in_sc; c2 = vg_in_sc;
	lha_crc16_buf(&c1, vg_in_sb, vg_in_sn);
	lha_crc16_buf(&c2, vg_in_sb, vg_in_sk);
	lha_crc16_buf(&c2, vg_in_sb + vg_in_sk, vg_in_sn - vg_in_sk);
	__CPROVER_assert(c1 == c2, "C17 split (bounded n<=8): piecewise equals whole");
	VG_CANARY("crc_split end");
}

/* Refuter (bounded, SAT): <= 6 symbolic bytes, loop unwound, against the REF fold.
   Inputs live in vg_in_* so that the engine can lift them from the counterexample. */
uint8_t vg_in_b[6];
uint16_t vg_in_c;
size_t vg_in_n;
void h_crc_refute(void)
{
	uint16_t c, r;
	size_t k;
	for (k = 0; k < 6; k++) vg_in_b[k] = nondet_uchar();
	vg_in_c = nondet_ushort();
	vg_in_n = nondet_size_t();
	__CPROVER_assume(vg_in_n <= 6);
	r = c = vg_in_c;
	for (k = 0; k < 6; k++) if (k < vg_in_n) r = REF(r, vg_in_b[k]);
	lha_crc16_buf(&c, vg_in_b, vg_in_n);
	__CPROVER_assert(c == r, "C17 bounded: crc of <=6 bytes equals REF fold");
	VG_CANARY("crc_refute end");
}

/* C17 (and the CRC lemmas C07/C14 rely on): lib/crc16.c under contract. */
#include "vg_common.h"

#define VG_NMAX 65536
/* ghost: vg_g[j] = CRC state after the first j bytes of the arena vg_buf */
/* two regions: [0, VG_NMAX] and [VG_NMAX+1, 2*VG_NMAX+1]; vg_go selects the region a call's contract speaks about */
uint16_t vg_g[2 * (VG_NMAX + 1)];
size_t vg_go;
/* ghost: the byte arena of the split lemma */
uint8_t vg_b[VG_NMAX];

/* One step of the checksum in table form (contract vocabulary; identified with the
   bitwise definition REF by group crc16.tbl_eq_ref). */
#define TBL_STEP(c, b) \
  ((uint16_t)(((((uint16_t)(c)) >> 8) ^ crc16_table[(((uint16_t)(c)) ^ ((uint8_t)(b))) & 0xff]) & 0xffff))

#ifndef VG_GO
#define VG_GO 0
#endif
#include "lib/crc16.c"

/* CRC-16/ARC, bit by bit, from the property statement: reflected polynomial 0xA001,
   no final inversion. */
static uint16_t REF(uint16_t c, uint8_t b)
{
	unsigned k;
	c ^= b;
	for (k = 0; k < 8; k++) {
		if (c & 1) c = (uint16_t)((c >> 1) ^ 0xA001);
		else       c = (uint16_t)(c >> 1);
	}
	return c;
}

/* L1: the real routine on a 1-byte buffer == bitwise definition, all 2^24 (state, byte). */
void h_crc_step(void)
{
	uint16_t c = nondet_ushort(), c0;
	uint8_t b = nondet_uchar();
	c0 = c;
	lha_crc16_buf(&c, &b, 1);
	__CPROVER_assert(c == REF(c0, b), "C17 step: lha_crc16_buf on one byte equals bitwise CRC-16/ARC step");
	VG_CANARY("crc_step end");
}

/* L1b: contract vocabulary TBL_STEP == REF for all (state, byte); also pins every table entry. */
void h_tbl_eq_ref(void)
{
	uint16_t c = nondet_ushort();
	uint8_t b = nondet_uchar();
	__CPROVER_assert(TBL_STEP(c, b) == REF(c, b), "C17 lemma: table step equals bitwise step");
	__CPROVER_assert(sizeof(crc16_table) / sizeof(crc16_table[0]) == 256, "C17 table has 256 entries");
	VG_CANARY("tbl_eq_ref end");
}

/* L1c: zero-length call leaves the state unchanged */
void h_crc_zero(void)
{
	uint16_t c = nondet_ushort(), c0;
	uint8_t b;
	c0 = c;
	lha_crc16_buf(&c, &b, 0);
	__CPROVER_assert(c == c0, "C17 zero-length call is the identity");
	VG_CANARY("crc_zero end");
}

/* L2: whole-buffer contract (DFCC, enforced). */
void h_crc_buf(void)
{
	uint16_t *crc;
	uint8_t *buf;
	size_t n;
	__CPROVER_havoc_object(vg_g);
	vg_go = VG_GO;                 /* group crc16.buf: region 0; group crc16.buf@1: region VG_NMAX+1 */
	lha_crc16_buf(crc, buf, n);
	VG_CANARY("crc_buf end");
}

/* L3 (unbounded): feeding vg_b[0..n) as [0,k) then [k,n) ends in the same state as one call on the whole.
   G1 = region 0 is the state sequence of the whole buffer from c; G3 = region 1 is the state sequence of the second
   piece from G1[k] (both exist for every buffer: they are defined by the recurrence, so assuming them loses no
   input).  The three calls are replaced by the contract proved in crc16.buf / crc16.buf@1 (preconditions checked at
   the calls).  That the second piece's sequence is the whole sequence shifted by k -- the step the SMT back ends
   cannot re-index on their own -- is proved by induction, written as a ghost loop with an invariant. */
#define G1(i) vg_g[(i)]
#define G3(i) vg_g[VG_NMAX + 1 + (i)]
/* The checksum variable may live INSIDE the buffer being summed (a record that carries its own CRC field): the value
   left in *crc must still be the fold over the bytes that were passed in.  An inductive (loop-contract) version of this
   group was tried: z3 answers unknown and cvc5 does not finish in 160 s because the field is read through a
   type-punned pointer into the byte arena; only the bounded form below is kept. */
size_t vg_ao, vg_Y;
/* bounded, plain route (real code unwound, independent of the loop anchors): same statement for buffers of <= 6 bytes
   against the REF fold of the ORIGINAL bytes. */
uint8_t vg_in_ab[6], vg_wb[6];
size_t vg_in_an, vg_in_ao;
void h_crc_alias_bounded(void)
{
	uint16_t r;
	size_t k;
	for (k = 0; k < 6; k++) vg_in_ab[k] = nondet_uchar();
	vg_in_an = nondet_size_t(); vg_in_ao = nondet_size_t();
	__CPROVER_assume(vg_in_an <= 6 && vg_in_ao <= vg_in_an && vg_in_an - vg_in_ao >= 2);
	r = (uint16_t) (vg_in_ab[vg_in_ao] | (vg_in_ab[vg_in_ao + 1] << 8));   /* little-endian host, as the library assumes nothing else here */
	for (k = 0; k < 6; k++) if (k < vg_in_an) r = REF(r, vg_in_ab[k]);
	for (k = 0; k < 6; k++) vg_wb[k] = vg_in_ab[k];        /* vg_in_ab keeps the input for the replay machinery */
	lha_crc16_buf((uint16_t *) (vg_wb + vg_in_ao), vg_wb, vg_in_an);
	__CPROVER_assert(*(uint16_t *) (vg_wb + vg_in_ao) == r, "C17 aliased (bounded n<=6): crc field inside the buffer holds the REF fold of the original bytes");
	VG_CANARY("crc_alias_bounded end");
}

/* L3a: shift lemma, by induction (ghost loop with invariant; quantifier-free: the loop body assumes exactly the two
   instances of the hypotheses that the step needs).
   Hypotheses (H1) for all i < n:   G1(i+1) == TBL_STEP(G1(i), vg_b[i]);
              (H3) G3(0) == G1(k), for all i < n-k: G3(i+1) == TBL_STEP(G3(i), vg_b[k+i]).
   Conclusion: G3(n-k) == G1(n). */
void h_crc_shift_lemma(void)
{
	size_t n, k, j;
	__CPROVER_havoc_object(vg_b);
	__CPROVER_havoc_object(vg_g);
	n = nondet_size_t(); k = nondet_size_t();
	__CPROVER_assume(n <= VG_NMAX && k <= n);
	__CPROVER_assume(G3(0) == G1(k));
	for (j = 0; j < n - k; j++)
	__CPROVER_assigns(j)
	__CPROVER_loop_invariant(j <= n - k)
	__CPROVER_loop_invariant(G3(j) == G1(k + j))
	__CPROVER_decreases(n - k - j)
	{
		__CPROVER_assume(G1(k + j + 1) == TBL_STEP(G1(k + j), vg_b[k + j]));   /* instance i = k+j of H1 */
		__CPROVER_assume(G3(j + 1) == TBL_STEP(G3(j), vg_b[k + j]));           /* instance i = j of H3 */
	}
	__CPROVER_assert(G3(n - k) == G1(n), "C17 shift lemma: the state sequence of the second piece is the whole sequence shifted by k");
	VG_CANARY("crc_shift_lemma end");
}

/* L3b: the three calls, each replaced by the contract proved in crc16.buf / crc16.buf@1 (preconditions checked at
   the calls; the quantified hypotheses are written in the clause's own form). */
void h_crc_split_lemma(void)
{
	uint16_t c, c1, c2;
	size_t n, k;
	__CPROVER_havoc_object(vg_b);
	__CPROVER_havoc_object(vg_g);
	c = nondet_ushort(); n = nondet_size_t(); k = nondet_size_t();
	__CPROVER_assume(n <= VG_NMAX && k <= n);
	__CPROVER_assume(G1(0) == c);
	__CPROVER_assume(G3(0) == G1(k));
	__CPROVER_assume(__CPROVER_forall { size_t vk; (vk < n) ==>
	    vg_g[0 + vk + 1] == TBL_STEP(vg_g[0 + vk], vg_b[vk]) });
	__CPROVER_assume(__CPROVER_forall { size_t vk; (vk < n - k) ==>
	    vg_g[(VG_NMAX + 1) + vk + 1] == TBL_STEP(vg_g[(VG_NMAX + 1) + vk], (vg_b + k)[vk]) });
	/* ASSUME: conclusion of the shift lemma, proved under these same hypotheses by group crc16.shift_lemma */
	__CPROVER_assume(G3(n - k) == G1(n));
	c1 = c; c2 = c;
	vg_go = 0;           lha_crc16_buf(&c1, vg_b, n);
	vg_go = 0;           lha_crc16_buf(&c2, vg_b, k);
	vg_go = VG_NMAX + 1; lha_crc16_buf(&c2, vg_b + k, n - k);
	__CPROVER_assert(c1 == c2, "C17 split lemma: piecewise equals whole, any length, any split point");
	__CPROVER_assert(c1 == G1(n), "C17 split lemma: both equal the fold over the whole buffer");
	VG_CANARY("crc_split_lemma end");
}

/* L3 (bounded, SAT, real code unwound): a buffer of n <= 8 bytes fed as two pieces, any split point,
   ends in the same state as one call on the whole.  The unbounded statement follows from L2 by the
   index-shift law of folds (the ghost sequence of the second piece is the whole sequence shifted by k);
   that re-indexing step is beyond what the installed SMT back ends instantiate (DESIGN.md C17). */
uint8_t vg_in_sb[8];
uint16_t vg_in_sc;
size_t vg_in_sn, vg_in_sk;
void h_crc_split(void)
{
	uint16_t c1, c2;
	size_t j;
	for (j = 0; j < 8; j++) vg_in_sb[j] = nondet_uchar();
	vg_in_sc = nondet_ushort();
	vg_in_sn = nondet_size_t(); vg_in_sk = nondet_size_t();
	__CPROVER_assume(vg_in_sn <= 8 && vg_in_sk <= vg_in_sn);
	c1 = vg_in_sc; c2 = vg_in_sc;
	lha_crc16_buf(&c1, vg_in_sb, vg_in_sn);
	lha_crc16_buf(&c2, vg_in_sb, vg_in_sk);
	lha_crc16_buf(&c2, vg_in_sb + vg_in_sk, vg_in_sn - vg_in_sk);
	__CPROVER_assert(c1 == c2, "C17 split (bounded n<=8): piecewise equals whole");
	VG_CANARY("crc_split end");
}

/* Refuter (bounded, SAT): <= 6 symbolic bytes, loop unwound, against the REF fold.
   Inputs live in vg_in_* so that the engine can lift them from the counterexample. */
uint8_t vg_in_b[6];
uint16_t vg_in_c;
size_t vg_in_n;
void h_crc_refute(void)
{
	uint16_t c, r;
	size_t k;
	for (k = 0; k < 6; k++) vg_in_b[k] = nondet_uchar();
	vg_in_c = nondet_ushort();
	vg_in_n = nondet_size_t();
	__CPROVER_assume(vg_in_n <= 6);
	r = c = vg_in_c;
	for (k = 0; k < 6; k++) if (k < vg_in_n) r = REF(r, vg_in_b[k]);
	lha_crc16_buf(&c, vg_in_b, vg_in_n);
	__CPROVER_assert(c == r, "C17 bounded: crc of <=6 bytes equals REF fold");
	VG_CANARY("crc_refute end");
}

/* C07 burst lemmas over the bitwise definition REF (identified with the code by crc16.step / crc16.tbl_eq_ref):
   (i) the step is injective in the state for every byte, so two runs that differ in state keep differing while
       they are fed equal bytes;
   (ii) flipping a non-empty set of bits confined to 16 consecutive bit positions (such a burst lies within 3
       consecutive bytes) changes the state after those 3 bytes, for every state before them.
   Together with crc16.buf (the routine is the fold of the step): every burst of 1..16 flipped bits in a
   buffer changes its CRC-16.  Both lemmas are loop-free after unwinding the 8-round step: complete. */
void h_crc_injective(void)
{
	uint16_t c1 = nondet_ushort(), c2 = nondet_ushort();
	uint8_t b = nondet_uchar();
	__CPROVER_assume(c1 != c2);
	__CPROVER_assert(REF(c1, b) != REF(c2, b), "C07 burst lemma (i): the CRC step is injective in the state");
	VG_CANARY("crc_injective");
}
void h_crc_burst(void)
{
	uint16_t c = nondet_ushort(), m = nondet_ushort();
	uint8_t b0 = nondet_uchar(), b1 = nondet_uchar(), b2 = nondet_uchar();
	unsigned sh = nondet_uint();
	uint32_t e;
	uint16_t good, bad;
	__CPROVER_assume(m != 0 && sh <= 8);
	e = (uint32_t) m << sh;                              /* non-empty error pattern inside a 16-bit window of the 24 bits */
	good = REF(REF(REF(c, b0), b1), b2);
	bad  = REF(REF(REF(c, b0 ^ (uint8_t) (e & 0xff)), b1 ^ (uint8_t) ((e >> 8) & 0xff)), b2 ^ (uint8_t) ((e >> 16) & 0xff));
	__CPROVER_assert(good != bad, "C07 burst lemma (ii): a burst of 1..16 flipped bits changes the state after the bytes it touches");
	VG_CANARY("crc_burst");
}

/* C17 (and the CRC lemmas C07/C14 rely on): lib/crc16.c under contract. */
#include "vg_common.h"

#define VG_NMAX 65536
/* ghost: vg_g[j] = CRC state after the first j bytes of the arena vg_buf */
uint16_t vg_g[VG_NMAX + 1];

/* One step of the checksum in table form (contract vocabulary; identified with the
   bitwise definition REF by group crc16.tbl_eq_ref). */
#define TBL_STEP(c, b) \
  ((uint16_t)(((((uint16_t)(c)) >> 8) ^ crc16_table[(((uint16_t)(c)) ^ ((uint8_t)(b))) & 0xff]) & 0xffff))

#include "lib/crc16.c"

/* CRC-16/ARC, bit by bit, from the property statement: reflected polynomial 0xA001,
   no final inversion. */
static uint16_t REF(uint16_t c, uint8_t b)
{
	unsigned k;
	c ^= b;
	for (k = 0; k < 8; k++) {
		if (c & 1) c = (uint16_t)((c >> 1) ^ 0xA001);
		else       c = (uint16_t)(c >> 1);
	}
	return c;
}

/* L1: the real routine on a 1-byte buffer == bitwise definition, all 2^24 (state, byte). */
void h_crc_step(void)
{
	uint16_t c = nondet_ushort(), c0;
	uint8_t b = nondet_uchar();
	c0 = c;
	lha_crc16_buf(&c, &b, 1);
	__CPROVER_assert(c == REF(c0, b), "C17 step: lha_crc16_buf on one byte equals bitwise CRC-16/ARC step");
	VG_CANARY("crc_step end");
}

/* L1b: contract vocabulary TBL_STEP == REF for all (state, byte); also pins every table entry. */
void h_tbl_eq_ref(void)
{
	uint16_t c = nondet_ushort();
	uint8_t b = nondet_uchar();
	__CPROVER_assert(TBL_STEP(c, b) == REF(c, b), "C17 lemma: table step equals bitwise step");
	__CPROVER_assert(sizeof(crc16_table) / sizeof(crc16_table[0]) == 256, "C17 table has 256 entries");
	VG_CANARY("tbl_eq_ref end");
}

/* L1c: zero-length call leaves the state unchanged */
void h_crc_zero(void)
{
	uint16_t c = nondet_ushort(), c0;
	uint8_t b;
	c0 = c;
	lha_crc16_buf(&c, &b, 0);
	__CPROVER_assert(c == c0, "C17 zero-length call is the identity");
	VG_CANARY("crc_zero end");
}

/* L2: whole-buffer contract (DFCC, enforced). */
void h_crc_buf(void)
{
	uint16_t *crc;
	uint8_t *buf;
	size_t n;
	lha_crc16_buf(crc, buf, n);
	VG_CANARY("crc_buf end");
}

/* L3 (bounded, SAT, real code unwound): a buffer of n <= 8 bytes fed as two pieces, any split point,
   ends in the same state as one call on the whole.  The unbounded statement follows from L2 by the
   index-shift law of folds (the ghost sequence of the second piece is the whole sequence shifted by k);
   that re-indexing step is beyond what the installed SMT back ends instantiate (DESIGN.md C17). */
uint8_t vg_in_sb[8];
uint16_t vg_in_sc;
size_t vg_in_sn, vg_in_sk;
void h_crc_split(void)
{
	uint16_t c1, c2;
	size_t j;
	for (j = 0; j < 8; j++) vg_in_sb[j] = nondet_uchar();
	vg_in_sc = nondet_ushort();
	vg_in_sn = nondet_size_t(); vg_in_sk = nondet_size_t();
	__CPROVER_assume(vg_in_sn <= 8 && vg_in_sk <= vg_in_sn);
	c1 = vg_in_sc; c2 = vg_in_sc;
	lha_crc16_buf(&c1, vg_in_sb, vg_in_sn);
	lha_crc16_buf(&c2, vg_in_sb, vg_in_sk);
	lha_crc16_buf(&c2, vg_in_sb + vg_in_sk, vg_in_sn - vg_in_sk);
	__CPROVER_assert(c1 == c2, "C17 split (bounded n<=8): piecewise equals whole");
	VG_CANARY("crc_split end");
}

/* Refuter (bounded, SAT): <= 6 symbolic bytes, loop unwound, against the REF fold.
   Inputs live in vg_in_* so that the engine can lift them from the counterexample. */
uint8_t vg_in_b[6];
uint16_t vg_in_c;
size_t vg_in_n;
void h_crc_refute(void)
{
	uint16_t c, r;
	size_t k;
	for (k = 0; k < 6; k++) vg_in_b[k] = nondet_uchar();
	vg_in_c = nondet_ushort();
	vg_in_n = nondet_size_t();
	__CPROVER_assume(vg_in_n <= 6);
	r = c = vg_in_c;
	for (k = 0; k < 6; k++) if (k < vg_in_n) r = REF(r, vg_in_b[k]);
	lha_crc16_buf(&c, vg_in_b, vg_in_n);
	__CPROVER_assert(c == r, "C17 bounded: crc of <=6 bytes equals REF fold");
	VG_CANARY("crc_refute end");
}

/* C07 burst lemmas over the bitwise definition REF (identified with the code by crc16.step / crc16.tbl_eq_ref):
   (i) the step is injective in the state for every byte, so two runs that differ in state keep differing while
       they are fed equal bytes;
   (ii) flipping a non-empty set of bits confined to 16 consecutive bit positions (such a burst lies within 3
       consecutive bytes) changes the state after those 3 bytes, for every state before them.
   Together with crc16.buf (the routine is the fold of the step): every burst of 1..16 flipped bits in a
   buffer changes its CRC-16.  Both lemmas are loop-free after unwinding the 8-round step: complete. */
void h_crc_injective(void)
{
	uint16_t c1 = nondet_ushort(), c2 = nondet_ushort();
	uint8_t b = nondet_uchar();
	__CPROVER_assume(c1 != c2);
	__CPROVER_assert(REF(c1, b) != REF(c2, b), "C07 burst lemma (i): the CRC step is injective in the state");
	VG_CANARY("crc_injective");
}
void h_crc_burst(void)
{
	uint16_t c = nondet_ushort(), m = nondet_ushort();
	uint8_t b0 = nondet_uchar(), b1 = nondet_uchar(), b2 = nondet_uchar();
	unsigned sh = nondet_uint();
	uint32_t e;
	uint16_t good, bad;
	__CPROVER_assume(m != 0 && sh <= 8);
	e = (uint32_t) m << sh;                              /* non-empty error pattern inside a 16-bit window of the 24 bits */
	good = REF(REF(REF(c, b0), b1), b2);
	bad  = REF(REF(REF(c, b0 ^ (uint8_t) (e & 0xff)), b1 ^ (uint8_t) ((e >> 8) & 0xff)), b2 ^ (uint8_t) ((e >> 16) & 0xff));
	__CPROVER_assert(good != bad, "C07 burst lemma (ii): a burst of 1..16 flipped bits changes the state after the bytes it touches");
	VG_CANARY("crc_burst");
}

/* Unit lh1small: BOUNDED lock-step of the real -lh1- adaptive-tree code (lib/lh1_decoder.c, unwoven) with the
   encoder-side LZHUF algorithm (StartHuff / update / reconst, transcribed below from H. Yoshizaki's LZHUF.C as the
   property statement names it), at a REDUCED alphabet.

   The engine instantiates the real text with two size constants substituted mechanically (plan key `subst`, each must
   match exactly once):   #define NUM_CODES 314  ->  VG_SN      #define TREE_REORDER_LIMIT 32 * 1024  ->  VG_SR
                          #define RING_BUFFER_SIZE 4096  ->  16   (the tree functions never touch the ring; a 4 KiB array
                          inside the decoder struct makes every pointer access of reconstruct_tree 100x dearer for cbmc)
   Nothing else of lib/lh1_decoder.c is changed or dropped.  The functions under check (init_groups, init_tree,
   alloc_group, free_group, make_group_leader, increment_node_freq, reconstruct_tree, increment_for_code) are written
   in terms of those two macros only, so the small instantiation runs the same statements; that the behaviour at
   314 codes / limit 32768 follows from the behaviour at VG_SN / VG_SR is NOT proved (hence: bounded).

   What is asserted after init and after every one of VG_STEPS symbolic symbols (each any code < VG_SN):
     (a) node for node, the real table equals the LZHUF model mirrored (real node k <-> model node T-1-k):
         frequency, leaf flag, code / child link, parent link, code -> leaf map;
     (b) the real code's own group structure is exact: adjacent nodes share a group iff they have the same frequency,
         every group's recorded leader is its left-most node, the number of ids in use is num_groups, and the free
         list groups[num_groups..) is duplicate-free and disjoint from the ids in use (so a later alloc_group can never
         hand out an id in use).
   With VG_SR small the periodic rebuild (reconstruct_tree vs reconst) is reached inside the run and steps after it
   are compared too. */
/* ASSUME: (lh1small groups, bounded) the -lh1- tree code behaves at NUM_CODES=314 / TREE_REORDER_LIMIT=32768 as it
   does at the substituted small constants; the LZHUF model in harness/h_lh1_small.c is a faithful transcription of
   LZHUF.C's StartHuff/update/reconst. */
#include "vg_common.h"

#ifndef VG_SN
#define VG_SN 4
#endif
#ifndef VG_SR
#define VG_SR 8
#endif
#ifndef VG_STEPS
#define VG_STEPS 6
#endif

#include "lib/lh1_decoder.c"

#define M_N   NUM_CODES
#define M_T   (M_N * 2 - 1)
#define M_R   (M_T - 1)
#define M_MAX TREE_REORDER_LIMIT

static LHALH1Decoder vg_d;

/* ---- LZHUF model (freq[], prnt[], son[] as in LZHUF.C) ---- */
static unsigned m_freq[M_T + 1];
static int m_prnt[M_T + M_N];
static int m_son[M_T];

static void m_StartHuff(void)
{
	int i, j;
	for (i = 0; i < M_N; i++) {
		m_freq[i] = 1;
		m_son[i] = i + M_T;
		m_prnt[i + M_T] = i;
	}
	i = 0; j = M_N;
	while (j <= M_R) {
		m_freq[j] = m_freq[i] + m_freq[i + 1];
		m_son[j] = i;
		m_prnt[i] = m_prnt[i + 1] = j;
		i += 2; j++;
	}
	m_freq[M_T] = 0xffff;
	m_prnt[M_R] = 0;
}

static void m_reconst(void)
{
	int i, j, k, x;
	unsigned f;

	/* collect leaf nodes in the first half of the table and replace the freq by (freq + 1) / 2 */
	j = 0;
	for (i = 0; i < M_T; i++) {
		if (m_son[i] >= M_T) {
			m_freq[j] = (m_freq[i] + 1) / 2;
			m_son[j] = m_son[i];
			j++;
		}
	}
	/* begin constructing tree by connecting sons */
	for (i = 0, j = M_N; j < M_T; i += 2, j++) {
		k = i + 1;
		f = m_freq[j] = m_freq[i] + m_freq[k];
		for (k = j - 1; f < m_freq[k]; k--);
		k++;
		/* memmove(&freq[k+1], &freq[k], (j-k)*2); memmove(&son[k+1], &son[k], (j-k)*2); */
		for (x = j; x > k; x--) {
			m_freq[x] = m_freq[x - 1];
			m_son[x] = m_son[x - 1];
		}
		m_freq[k] = f;
		m_son[k] = i;
	}
	/* connect prnt */
	for (i = 0; i < M_T; i++) {
		if ((k = m_son[i]) >= M_T) {
			m_prnt[k] = i;
		} else {
			m_prnt[k] = m_prnt[k + 1] = i;
		}
	}
}

static void m_update(int c)
{
	int i, j, l;
	unsigned k;

	if (m_freq[M_R] == M_MAX) {
		m_reconst();
	}
	c = m_prnt[c + M_T];
	do {
		k = ++m_freq[c];
		/* if the order is disturbed, exchange nodes */
		if (k > m_freq[l = c + 1]) {
			while (k > m_freq[++l]);
			l--;
			m_freq[c] = m_freq[l];
			m_freq[l] = k;

			i = m_son[c];
			m_prnt[i] = l;
			if (i < M_T) m_prnt[i + 1] = l;

			j = m_son[l];
			m_son[l] = i;

			m_prnt[j] = c;
			if (j < M_T) m_prnt[j + 1] = c;
			m_son[c] = j;

			c = l;
		}
	} while ((c = m_prnt[c]) != 0);	/* repeat up to root */
}

/* ---- comparison ---- */
static void vg_compare(void)
{
	unsigned k, c, j, g, cnt;

	for (k = 0; k < M_T; ++k) {
		unsigned mk = M_T - 1 - k;
		__CPROVER_assert(vg_d.nodes[k].freq == m_freq[mk], "lock-step: node frequency equals LZHUF freq[]");
		__CPROVER_assert((vg_d.nodes[k].leaf != 0) == (m_son[mk] >= M_T), "lock-step: leaf flag equals LZHUF son[] >= T");
		if (vg_d.nodes[k].leaf) {
			__CPROVER_assert((int) vg_d.nodes[k].child_index + M_T == m_son[mk], "lock-step: leaf code equals LZHUF son[] - T");
		} else {
			__CPROVER_assert(M_T - 1 - (int) vg_d.nodes[k].child_index == m_son[mk], "lock-step: child pair equals LZHUF son[]");
		}
		if (k != 0) {
			__CPROVER_assert(M_T - 1 - (int) vg_d.nodes[k].parent == m_prnt[mk], "lock-step: parent equals LZHUF prnt[]");
		}
	}
	for (c = 0; c < M_N; ++c) {
		__CPROVER_assert(M_T - 1 - (int) vg_d.leaf_nodes[c] == m_prnt[c + M_T], "lock-step: code-to-leaf map equals LZHUF prnt[c + T]");
	}
	/* (b) group structure of the real code */
	__CPROVER_assert(vg_d.num_groups >= 1 && vg_d.num_groups <= M_T, "groups: fill level in range");
	cnt = 1;
	for (k = 0; k < M_T; ++k) {
		g = vg_d.nodes[k].group;
		__CPROVER_assert(g < M_T, "groups: id in range");
		if (k != 0) {
			__CPROVER_assert((g == vg_d.nodes[k - 1].group) == (vg_d.nodes[k].freq == vg_d.nodes[k - 1].freq),
			                 "groups: adjacent nodes share a group iff they have equal frequency");
			if (g != vg_d.nodes[k - 1].group) {
				++cnt;
			}
		}
		if (g < M_T) {
			__CPROVER_assert(vg_d.group_leader[g] == ((k != 0 && g == vg_d.nodes[k - 1].group) ? vg_d.group_leader[vg_d.nodes[k - 1].group] : k),
			                 "groups: the recorded leader is the left-most node of the group");
			/* the id is not on the free list groups[num_groups..) */
			for (j = 0; j < M_T; ++j) {
				__CPROVER_assert(j < vg_d.num_groups || vg_d.groups[j] != g, "groups: no id in use is on the free list");
			}
		}
	}
	__CPROVER_assert(cnt == vg_d.num_groups, "groups: number of allocated ids equals number of distinct frequencies");
	for (j = 0; j < M_T; ++j) {
		unsigned j2;
		__CPROVER_assert(j < vg_d.num_groups || vg_d.groups[j] < M_T, "groups: free list entries in range");
		for (j2 = j + 1; j2 < M_T; ++j2) {
			__CPROVER_assert(j < vg_d.num_groups || vg_d.groups[j] != vg_d.groups[j2], "groups: free list is duplicate-free");
		}
	}
}

/* The root frequency before step s of a run from the initial tree is NUM_CODES + s as long as no rebuild has happened.
   It is asserted, and then written back as a literal: a no-op on every path that passes the assertion, which lets the
   symbolic execution see `nodes[0].freq >= TREE_REORDER_LIMIT` as a constant, so the rebuild is explored only in the
   step that really performs it (otherwise the formula contains the rebuild VG_STEPS times and exceeds memory). */
#define VG_PIN_ROOT(s) do { \
	__CPROVER_assert(vg_d.nodes[0].freq == M_N + (s), "lock-step: root frequency is NUM_CODES + symbols seen"); \
	vg_d.nodes[0].freq = (uint16_t) (M_N + (s)); \
	m_freq[M_R] = M_N + (s); } while (0)

void h_lockstep(void)
{
	unsigned s;
	/* lha_decoder_new hands calloc'ed memory to the init function */
	memset(&vg_d, 0, sizeof(vg_d));
	init_groups(&vg_d);
	init_tree(&vg_d);
	m_StartHuff();
	vg_compare();
	for (s = 0; s < VG_STEPS; ++s) {
		uint16_t code = nondet_ushort();
		__CPROVER_assume(code < M_N);
		if (M_N + s <= M_MAX) {
			VG_PIN_ROOT(s);
		}
		increment_for_code(&vg_d, code);
		m_update(code);
		vg_compare();
	}
	VG_CANARY("lh1small.lockstep");
}

/* reachability witness: the run passes through the periodic rebuild (the inner assertion must FAIL like a canary; it is
   named as one so that the engine requires the failure) */
void h_lockstep_reaches_rebuild(void)
{
	unsigned s;
	memset(&vg_d, 0, sizeof(vg_d));
	init_groups(&vg_d);
	init_tree(&vg_d);
	for (s = 0; s < VG_STEPS; ++s) {
		uint16_t code = nondet_ushort();
		__CPROVER_assume(code < M_N);
		if (M_N + s <= M_MAX) {
			vg_d.nodes[0].freq = (uint16_t) (M_N + s);
		}
		if (vg_d.nodes[0].freq >= TREE_REORDER_LIMIT) {
			__CPROVER_assert(0, "VG_CANARY lh1small: the rebuild is reached inside the run");
		}
		increment_for_code(&vg_d, code);
	}
	VG_CANARY("lh1small.reach");
}

/* Exhaustive enumeration inside cbmc: every sequence of VG_LEN codes (VG_TOTAL = VG_SN ** VG_LEN of them), each run from
   the initial tree with all inputs concrete, so the symbolic execution constant-folds the run and each assertion is
   decided during symbolic execution or by a trivial formula.  The rebuild from a symbolic pre-state exceeds memory
   (pointer-walking loops of reconstruct_tree over a symbolic table); enumeration reaches it with VG_LEN > VG_SR - VG_SN. */
#ifndef VG_LEN
#define VG_LEN 7
#endif
#ifndef VG_TOTAL
#define VG_TOTAL 16384
#endif
static unsigned vg_idx[VG_LEN];
static unsigned vg_rebuilt;

static void vg_enum_one(void)
{
	unsigned s;
	/* lha_decoder_new hands calloc'ed memory to the init function.  The tree fields are cleared one by one: a memset
	   of the whole decoder struct (4 KiB ring) per run makes the symbolic execution far slower */
	for (s = 0; s < M_T; ++s) {
		vg_d.nodes[s].leaf = 0; vg_d.nodes[s].child_index = 0; vg_d.nodes[s].parent = 0;
		vg_d.nodes[s].freq = 0; vg_d.nodes[s].group = 0;
		vg_d.groups[s] = 0; vg_d.group_leader[s] = 0;
	}
	for (s = 0; s < M_N; ++s) {
		vg_d.leaf_nodes[s] = 0;
	}
	vg_d.num_groups = 0;
	init_groups(&vg_d);
	init_tree(&vg_d);
	m_StartHuff();
	for (s = 0; s < VG_LEN; ++s) {
		if (vg_d.nodes[0].freq >= TREE_REORDER_LIMIT) {
			vg_rebuilt = 1;
		}
		increment_for_code(&vg_d, (uint16_t) vg_idx[s]);
		m_update((int) vg_idx[s]);
		vg_compare();
	}
	/* odometer */
	for (s = 0; s < VG_LEN; ++s) {
		if (++vg_idx[s] < M_N) {
			break;
		}
		vg_idx[s] = 0;
	}
}

void h_lockstep_enum(void)
{
	unsigned n;
	/* the only loop of this function (loop id h_lockstep_enum.0 in the plan's --unwindset) */
	for (n = 0; n < VG_TOTAL; ++n) {
		vg_enum_one();
	}
	__CPROVER_assert(vg_idx[0] == 0 && vg_idx[VG_LEN - 1] == 0 && vg_idx[VG_LEN / 2] == 0,
	                 "enumeration: VG_TOTAL is VG_SN ** VG_LEN (the odometer is back at zero)");
	__CPROVER_assert(vg_rebuilt, "enumeration: the periodic rebuild is reached");
	VG_CANARY("lh1small.lockstep_enum");
}

/* Functional vocabulary of the bit reader (DESIGN.md C01 step 1).
   Ghost input: vg_in[] is (a window of) the compressed byte stream, vg_in_pos the number of its bytes the
   callback has handed out.  The bit cursor is DERIVED: CUR = 8*vg_in_pos - reader->bits (first unread bit).
   The code never sees absolute positions, so nothing depends on the window size; vg_in_pos >= 4 only gives
   LAST32 something to read (the 4 bytes before the start of a stream are irrelevant because bits == 0 there). */
#ifndef VG_BITS_H
#define VG_BITS_H
/* Ghost window: 48 stream bytes; the byte position at the ENTRY of a function under contract lies in
   [VG_POS_MIN, VG_POS_MAX] (a top-level harness places the window so that its entry position is VG_POS_MIN..;
   one top-level call consumes at most VG_POS_MAX - VG_POS_MIN bytes through functional contracts). */
#define VG_IN_MAX 48
#define VG_POS_MIN 4
#define VG_POS_MAX 24
uint8_t vg_in[VG_IN_MAX];
size_t  vg_in_pos;
_Bool   vg_eof;         /* set when the callback has reported end of input (returned 0 for a non-empty request) */
unsigned vg_eof_run;    /* ghost: consecutive end-of-input answers given so far */
unsigned vg_eof_limit;  /* 0 = off; otherwise the harness's bound on consecutive end-of-input answers within one call */

/* ASSUME: LHADecoderCallback contract, functional form: returns n <= buf_len (any short count), copies the
   next n input bytes to buf, advances the input; 0 for a non-empty request means end of input. */
size_t vg_cbf(void *buf, size_t buf_len, void *user_data)
{
	size_t n = nondet_size_t();
	uint8_t *p = (uint8_t *) buf;
	__CPROVER_assume(n <= buf_len);
	__CPROVER_assert(buf_len <= 4, "bit reader asks its callback for at most 4 bytes");
	if (n > 0) p[0] = vg_in[vg_in_pos];
	if (n > 1) p[1] = vg_in[vg_in_pos + 1];
	if (n > 2) p[2] = vg_in[vg_in_pos + 2];
	if (n > 3) p[3] = vg_in[vg_in_pos + 3];
	if (n == 0 && buf_len > 0) {
		vg_eof = 1;
		vg_eof_run++;
		/* C13: a function that is told "end of input" gives up instead of asking again and again */
		__CPROVER_assert(vg_eof_limit == 0 || vg_eof_run <= vg_eof_limit, "C13: no more than the stated number of consecutive end-of-input answers are requested within one call");
	} else if (n > 0) {
		vg_eof_run = 0;
	}
	vg_in_pos += n;
	return n;
}
size_t (*const vg_cbf_ptr)(void *, size_t, void *) = vg_cbf;

#define VG_W64(q) (((uint64_t) vg_in[(q)] << 56) | ((uint64_t) vg_in[(q) + 1] << 48) | ((uint64_t) vg_in[(q) + 2] << 40) | \
                   ((uint64_t) vg_in[(q) + 3] << 32) | ((uint64_t) vg_in[(q) + 4] << 24) | ((uint64_t) vg_in[(q) + 5] << 16) | \
                   ((uint64_t) vg_in[(q) + 6] << 8) | (uint64_t) vg_in[(q) + 7])
/* the n <= 32 stream bits starting at bit position P, MSB first, as an integer */
#define VG_SB(P, n) ((n) == 0 ? 0u : (uint32_t) ((VG_W64((P) / 8) << ((P) % 8)) >> (64 - (n))))
#define VG_LAST32(p) (((uint32_t) vg_in[(p) - 4] << 24) | ((uint32_t) vg_in[(p) - 3] << 16) | ((uint32_t) vg_in[(p) - 2] << 8) | (uint32_t) vg_in[(p) - 1])
/* the bit buffer holds exactly the last `bits` bits fetched, left-aligned, rest zero */
#define VG_BUF_OF(p, b) ((b) == 0 ? 0u : (uint32_t) (VG_LAST32(p) << (32 - (b))))
#define VG_CUR(r) (8 * vg_in_pos - (r)->bits)
/* the same in the pre-state of a contract (history variables only track lvalues) */
#define VG_CUR_OLD(r) (8 * __CPROVER_old(vg_in_pos) - __CPROVER_old((r)->bits))
#define BSR_FUNC(r) ((r)->bits <= 32 && (r)->callback == vg_cbf && vg_in_pos >= VG_POS_MIN && vg_in_pos <= VG_POS_MAX + 4 && \
                     (r)->bit_buffer == VG_BUF_OF(vg_in_pos, (r)->bits))
/* contract clauses of the functional bit reader (same text in the spec and in harness/h_bits.c) */
#define BITS_PRE(r, n)              (BSR_FUNC(r) && (n) <= 31 && vg_in_pos <= VG_POS_MAX)
#define BITS_READ_POST(ret, r, n, CUR0) ((ret) == -1 || ((ret) >= 0 && (uint32_t) (ret) == VG_SB(CUR0, n) && VG_CUR(r) == (CUR0) + (n)))
#define BITS_PEEK_POST(ret, r, n, CUR0) ((ret) == -1 || ((ret) >= 0 && (uint32_t) (ret) == VG_SB(CUR0, n) && VG_CUR(r) == (CUR0)))
#define BITS_INV_POST(r)            ((r)->bits <= 32 && (r)->callback == vg_cbf && vg_in_pos >= VG_POS_MIN && vg_in_pos <= VG_POS_MAX + 4 && \
                                     (r)->bit_buffer == VG_BUF_OF(vg_in_pos, (r)->bits))
#define BITS_EOF_POST(ret, n)       (((ret) == -1 && (n) <= 25) ==> vg_eof)
#define BITS_EOF_MONO(EOF0)         ((EOF0) ==> vg_eof)
#define BITS_ADV_POST(P0)           (vg_in_pos >= (P0) && vg_in_pos <= (P0) + 4)
#endif

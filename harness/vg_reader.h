/* Vocabulary of unit `reader` (lib/lha_reader.c): arenas, ghost state (views of the external modules that the
   recording stubs in h_reader.c maintain), representation-invariant and contract macros.  Included by h_reader.c
   before the woven lha_reader.c, whose contract clauses (contracts/lib/lha_reader.c.spec) use these names. */
#ifndef VG_READER_H
#define VG_READER_H
#include "vg_common.h"
#include <stdio.h>
#include "lib/lha_arch.h"
#include "lib/lha_decoder.h"
#include "lib/lha_basic_reader.h"
#include "lib/public/lha_reader.h"
#include "lib/macbinary.h"

#ifndef VG_NH
#define VG_NH 6                /* header universe: pool of arena headers (linked lists are chains through it) */
#endif
#ifndef VG_TB
#define VG_TB 300              /* size of the symlink-target string arena */
#endif

/* ------------------------------------------------------------------ arenas ------------------- */
extern LHAReader vg_rd;        /* the reader (defined by the @top clause right after struct _LHAReader) */
LHAFileHeader vg_h[VG_NH];     /* header pool */
LHADecoder    vg_dec[2];       /* [0] = inner decoder of the current entry, [1] = MacBinary pass-through */
char vg_tgt[VG_TB];            /* symlink target string of the current header */
char vg_pathbuf[VG_NH][4];     /* stand-ins for the path / filename strings of pool headers: lha_reader.c */
char vg_fnbuf[VG_NH][4];       /*   never reads their bytes itself, only hands them to strlen/strncmp/lha_arch_* */
char vg_userfn[4];             /* a caller-supplied file name */
char vg_tmpname[4];            /* the string lha_file_header_full_path returns */
static char vg_brmem[8], vg_filemem[8];
#define VG_BR   ((LHABasicReader *) vg_brmem)
#define VG_FILE ((FILE *) vg_filemem)
uint8_t vg_ubuf[128];          /* caller's buffer for lha_reader_read */

/* ------------------------------------------------------------------ ghost state -------------- */
/* Decoders of the current entry, as the contract proved in unit `decoder` lets a client see them. */
struct vg_decg {
	_Bool    live0, live1;     /* allocated and not yet freed */
	unsigned frees0, frees1;   /* lha_decoder_free calls */
	unsigned opens;            /* successful lha_basic_reader_decode calls */
	unsigned pass_calls;       /* lha_macbinary_passthrough calls */
	size_t   total;            /* bytes the inner decoder has returned so far  == lha_decoder_get_length(inner) */
	size_t   slen;             /* its declared stream length */
	uint16_t crc;              /* CRC-16 of those bytes                        == lha_decoder_get_crc(inner) */
	_Bool    ended;            /* it has answered a non-empty request with 0 (sticky): nothing more will ever come */
	size_t   ototal, oslen;    /* the same for the pass-through decoder */
	_Bool    oended;
	unsigned mon_calls;        /* lha_decoder_monitor recorder */
	LHADecoder *mon_dec; LHADecoderProgressCallback mon_cb; void *mon_data;
} vg_D;

/* The basic reader, seen from outside. */
struct vg_brg {
	LHAFileHeader *cur;        /* what lha_basic_reader_curr_file returns */
	unsigned next_calls;       /* lha_basic_reader_next_file calls */
	unsigned frees;            /* lha_basic_reader_free calls */
	_Bool    eof;              /* sticky end of archive */
} vg_B;

/* Filesystem recorder. */
struct vg_fsg {
	_Bool    file_open;        /* VG_FILE is open */
	unsigned fopens, fopen_oks, fcloses;
	char *fopen_name; int fopen_uid, fopen_gid, fopen_perms;
	size_t   wtotal;           /* bytes accepted by fwrite on VG_FILE */
	unsigned mkdirs;  char *mkdir_path;  unsigned mkdir_mode; int mkdir_r;
	unsigned exists;  char *exists_path; int exists_r;
	unsigned chowns;  char *chown_path;  int chown_uid, chown_gid;
	unsigned chmods;  char *chmod_path;  int chmod_perms;
	unsigned utimes;  char *utime_path;  unsigned utime_ts;
	unsigned symlinks; char *symlink_path, *symlink_target; int symlink_r;
	unsigned seq;              /* global operation counter */
	unsigned chmod_at, chown_at, utime_at;
} vg_F;

/* Ownership recorder. */
struct vg_memg {
	_Bool    tmp_live;         /* string returned by lha_file_header_full_path not yet freed */
	unsigned tmp_allocs, tmp_frees;
	_Bool    rd_live;          /* the LHAReader allocation */
	unsigned bad_frees;
} vg_M;
int vg_rank[VG_NH];
int vg_rank_bound;               /* ranks are mathematical integers; the bound only keeps machine arithmetic exact (widened by one after a push) */
unsigned char vg_where[VG_NH]; /* ghost labelling for the representation invariant (see VG_RI_NODE) */
int vg_ref[VG_NH];             /* references the READER holds on pool header i (add_ref minus free) */
unsigned vg_addref_calls, vg_hfree_calls;

size_t vg_plen[VG_NH], vg_flen[VG_NH];   /* ghost lengths of the opaque path / filename strings */

/* Skolem objects */
size_t  vg_G;                  /* an arbitrary absolute index into the stream the inner decoder produces */
uint8_t vg_pbyte;              /* the byte of that stream at index vg_G */
size_t  vg_X;                  /* an arbitrary pool header index / string position (per group) */
size_t  vg_w;                  /* witness position recorded by is_dangerous_symlink */
_Bool   vg_w_set;

/* list ghost: the deferred / directory list as a sequence of pool indices */
size_t vg_seq[VG_NH];
size_t vg_n;                   /* length of the sequence */
size_t vg_seq2[VG_NH], vg_n2, vg_k2;   /* a second list (lha_reader_free: deferred symlinks), its length, entries released */
unsigned vg_f0;                /* lha_reader_free: releases made before the first loop (a re-presented current entry) */
size_t vg_k;                   /* iterations done by the list-walking loop under proof */
size_t vg_J;                   /* Skolem position */
int    vg_refX0;               /* entry value of vg_ref[vg_X] */

/* ------------------------------------------------------------------ predicates --------------- */
#define VG_ISH(p)  (__CPROVER_same_object((p), vg_h) && VG_OFF(p) < sizeof(vg_h) && VG_OFF(p) % sizeof(LHAFileHeader) == 0)
#define VG_IDX(p)  (VG_OFF(p) / sizeof(LHAFileHeader))
#define VG_HOPT(p) ((p) == NULL || VG_ISH(p))
#define VG_IS_DIR(h) ((h).compress_method[0] == '-' && (h).compress_method[1] == 'l' && (h).compress_method[2] == 'h' && \
                      (h).compress_method[3] == 'd' && (h).compress_method[4] == '-' && (h).compress_method[5] == 0)

/* path length of pool header i as file_header_path_len computes it through the strlen stub */
#define VG_PLEN(i) ((size_t) ((vg_h[i].path != NULL ? vg_plen[i] : 0) + (vg_h[i].filename != NULL ? vg_flen[i] : 0)))

/* The list starting at HEAD is exactly the sequence vg_seq[0..vg_n) of distinct pool headers (VG_NH == 6). */
#define VG_SEQ_LINK(HEAD, k) ((k) < vg_n ==> (vg_seq[k] < VG_NH && \
	((k) == 0 ? (HEAD) : vg_h[vg_seq[(k) == 0 ? 0 : (k) - 1]]._next) == &vg_h[vg_seq[k]] && \
	vg_h[vg_seq[k]]._next == ((k) + 1 < vg_n ? &vg_h[vg_seq[(k) + 1 < VG_NH ? (k) + 1 : 0]] : NULL)))
#define VG_SEQ_DISTINCT(a, b) (((a) < vg_n && (b) < vg_n) ==> vg_seq[a] != vg_seq[b])
#define VG_LIST_SEQ(HEAD) (vg_n <= VG_NH && (vg_n == 0 ==> (HEAD) == NULL) && \
	VG_SEQ_LINK(HEAD, 0) && VG_SEQ_LINK(HEAD, 1) && VG_SEQ_LINK(HEAD, 2) && VG_SEQ_LINK(HEAD, 3) && VG_SEQ_LINK(HEAD, 4) && VG_SEQ_LINK(HEAD, 5) && \
	VG_SEQ_DISTINCT(0,1) && VG_SEQ_DISTINCT(0,2) && VG_SEQ_DISTINCT(0,3) && VG_SEQ_DISTINCT(0,4) && VG_SEQ_DISTINCT(0,5) && \
	VG_SEQ_DISTINCT(1,2) && VG_SEQ_DISTINCT(1,3) && VG_SEQ_DISTINCT(1,4) && VG_SEQ_DISTINCT(1,5) && VG_SEQ_DISTINCT(2,3) && \
	VG_SEQ_DISTINCT(2,4) && VG_SEQ_DISTINCT(2,5) && VG_SEQ_DISTINCT(3,4) && VG_SEQ_DISTINCT(3,5) && VG_SEQ_DISTINCT(4,5))
#define VG_SEQ_HAS_NOT(i) ((0 < vg_n ==> vg_seq[0] != (i)) && (1 < vg_n ==> vg_seq[1] != (i)) && (2 < vg_n ==> vg_seq[2] != (i)) && \
	(3 < vg_n ==> vg_seq[3] != (i)) && (4 < vg_n ==> vg_seq[4] != (i)) && (5 < vg_n ==> vg_seq[5] != (i)))
/* non-increasing path length along the sequence */
#define VG_SEQ_SORTED_AT(k) ((k) + 1 < vg_n ==> VG_PLEN(vg_seq[k]) >= VG_PLEN(vg_seq[(k) + 1 < VG_NH ? (k) + 1 : 0]))
#define VG_SEQ_SORTED (VG_SEQ_SORTED_AT(0) && VG_SEQ_SORTED_AT(1) && VG_SEQ_SORTED_AT(2) && VG_SEQ_SORTED_AT(3) && VG_SEQ_SORTED_AT(4))

/* the same for the second sequence vg_seq2[0..vg_n2) */
#define VG_SEQ2_LINK(HEAD, k) ((k) < vg_n2 ==> (vg_seq2[k] < VG_NH && \
	((k) == 0 ? (HEAD) : vg_h[vg_seq2[(k) == 0 ? 0 : (k) - 1]]._next) == &vg_h[vg_seq2[k]] && \
	vg_h[vg_seq2[k]]._next == ((k) + 1 < vg_n2 ? &vg_h[vg_seq2[(k) + 1 < VG_NH ? (k) + 1 : 0]] : NULL)))
#define VG_SEQ2_DISTINCT(a, b) (((a) < vg_n2 && (b) < vg_n2) ==> vg_seq2[a] != vg_seq2[b])
#define VG_LIST_SEQ2(HEAD) (vg_n2 <= VG_NH && (vg_n2 == 0 ==> (HEAD) == NULL) && \
	VG_SEQ2_LINK(HEAD, 0) && VG_SEQ2_LINK(HEAD, 1) && VG_SEQ2_LINK(HEAD, 2) && VG_SEQ2_LINK(HEAD, 3) && VG_SEQ2_LINK(HEAD, 4) && VG_SEQ2_LINK(HEAD, 5) && \
	VG_SEQ2_DISTINCT(0,1) && VG_SEQ2_DISTINCT(0,2) && VG_SEQ2_DISTINCT(0,3) && VG_SEQ2_DISTINCT(0,4) && VG_SEQ2_DISTINCT(0,5) && \
	VG_SEQ2_DISTINCT(1,2) && VG_SEQ2_DISTINCT(1,3) && VG_SEQ2_DISTINCT(1,4) && VG_SEQ2_DISTINCT(1,5) && VG_SEQ2_DISTINCT(2,3) && \
	VG_SEQ2_DISTINCT(2,4) && VG_SEQ2_DISTINCT(2,5) && VG_SEQ2_DISTINCT(3,4) && VG_SEQ2_DISTINCT(3,5) && VG_SEQ2_DISTINCT(4,5))
#define VG_SEQ2_HAS_NOT(i) ((0 < vg_n2 ==> vg_seq2[0] != (i)) && (1 < vg_n2 ==> vg_seq2[1] != (i)) && (2 < vg_n2 ==> vg_seq2[2] != (i)) && \
	(3 < vg_n2 ==> vg_seq2[3] != (i)) && (4 < vg_n2 ==> vg_seq2[4] != (i)) && (5 < vg_n2 ==> vg_seq2[5] != (i)))
/* the two sequences have no header in common */
#define VG_SEQS_DISJOINT_AT(j) ((j) < vg_n2 ==> VG_SEQ_HAS_NOT(vg_seq2[j]))
#define VG_SEQS_DISJOINT (VG_SEQS_DISJOINT_AT(0) && VG_SEQS_DISJOINT_AT(1) && VG_SEQS_DISJOINT_AT(2) && VG_SEQS_DISJOINT_AT(3) && VG_SEQS_DISJOINT_AT(4) && VG_SEQS_DISJOINT_AT(5))
#define VG_FREE2_INV_AT(j) ((j) < vg_n2 ==> vg_ref[vg_seq2[j]] == ((j) < vg_k2 ? 0 : 1))
#define VG_FREE2_INV (VG_FREE2_INV_AT(0) && VG_FREE2_INV_AT(1) && VG_FREE2_INV_AT(2) && VG_FREE2_INV_AT(3) && VG_FREE2_INV_AT(4) && VG_FREE2_INV_AT(5))

/* lha_reader_free: reference on sequence entry j released iff the walk (vg_k entries done) is past it */
#define VG_FREE_INV_AT(j) ((j) < vg_n ==> vg_ref[vg_seq[j]] == ((j) < vg_k ? 0 : 1))
#define VG_FREE_INV (VG_FREE_INV_AT(0) && VG_FREE_INV_AT(1) && VG_FREE_INV_AT(2) && VG_FREE_INV_AT(3) && VG_FREE_INV_AT(4) && VG_FREE_INV_AT(5))

/* Representation invariant of the reader's lists, local form.  vg_where[i] says where the reader holds its
   reference on pool header i: 0 nowhere, 1 directory stack, 2 deferred-symlink list, 3 re-presented current entry.
   vg_rank[] rises by one along each list, is minimal at the head and differs between any two entries with the
   same label, and each label has at most one entry without successor and none when its list is empty: a witness
   that the labelled headers are exactly ONE acyclic chain starting at the list head. */
#define VG_RI_NODE(i) (VG_HOPT(vg_h[i]._next) && \
	(vg_where[i] == 0 ==> vg_ref[i] == 0) && \
	(vg_where[i] == 1 ==> (vg_ref[i] == 1 && vg_h[i].path != NULL && (vg_h[i]._next == NULL || (vg_where[VG_IDX(vg_h[i]._next)] == 1 && vg_rank[VG_IDX(vg_h[i]._next)] == (long) vg_rank[i] + 1)))) && \
	(vg_where[i] == 2 ==> (vg_ref[i] == 1 && (vg_h[i]._next == NULL || (vg_where[VG_IDX(vg_h[i]._next)] == 2 && vg_rank[VG_IDX(vg_h[i]._next)] == (long) vg_rank[i] + 1 && VG_PLEN(i) >= VG_PLEN(VG_IDX(vg_h[i]._next)))))) && \
	(vg_where[i] == 3 ==> (vg_ref[i] == 1 && vg_rd.curr_file == &vg_h[i] && \
	                       (vg_rd.curr_file_type == CURR_FILE_FAKE_DIR || vg_rd.curr_file_type == CURR_FILE_DEFERRED_SYMLINK))) && \
	vg_where[i] <= 3)
#define VG_RI_PAIR(i, j) ((vg_where[i] == vg_where[j] && (vg_where[i] == 1 || vg_where[i] == 2)) ==> \
	(vg_rank[i] != vg_rank[j] && !(vg_h[i]._next == NULL && vg_h[j]._next == NULL)))
#define VG_RI_MIN(i) (vg_rank[i] > -vg_rank_bound && vg_rank[i] < vg_rank_bound && \
	(vg_rd.dir_stack == NULL ==> vg_where[i] != 1) && (vg_rd.deferred_symlinks == NULL ==> vg_where[i] != 2) && \
	((vg_rd.dir_stack != NULL && vg_where[i] == 1) ==> vg_rank[i] >= vg_rank[VG_IDX(vg_rd.dir_stack)]) && \
	((vg_rd.deferred_symlinks != NULL && vg_where[i] == 2) ==> vg_rank[i] >= vg_rank[VG_IDX(vg_rd.deferred_symlinks)]))
#define VG_RI_LISTS (VG_HOPT(vg_rd.dir_stack) && VG_HOPT(vg_rd.deferred_symlinks) && VG_HOPT(vg_rd.curr_file) && VG_HOPT(vg_B.cur) && \
	(vg_rd.dir_stack != NULL ==> vg_where[VG_IDX(vg_rd.dir_stack)] == 1) && \
	(vg_rd.deferred_symlinks != NULL ==> vg_where[VG_IDX(vg_rd.deferred_symlinks)] == 2) && \
	VG_RI_NODE(0) && VG_RI_NODE(1) && VG_RI_NODE(2) && VG_RI_NODE(3) && VG_RI_NODE(4) && VG_RI_NODE(5) && \
	VG_RI_MIN(0) && VG_RI_MIN(1) && VG_RI_MIN(2) && VG_RI_MIN(3) && VG_RI_MIN(4) && VG_RI_MIN(5) && \
	VG_RI_PAIR(0,1) && VG_RI_PAIR(0,2) && VG_RI_PAIR(0,3) && VG_RI_PAIR(0,4) && VG_RI_PAIR(0,5) && VG_RI_PAIR(1,2) && VG_RI_PAIR(1,3) && VG_RI_PAIR(1,4) && \
	VG_RI_PAIR(1,5) && VG_RI_PAIR(2,3) && VG_RI_PAIR(2,4) && VG_RI_PAIR(2,5) && VG_RI_PAIR(3,4) && VG_RI_PAIR(3,5) && VG_RI_PAIR(4,5))
/* what the current-entry type says about the current header */
#define VG_RI_CURR ( \
	(vg_rd.curr_file_type == CURR_FILE_START ==> (vg_rd.curr_file == NULL && vg_B.cur == NULL && vg_rd.dir_stack == NULL && vg_rd.deferred_symlinks == NULL)) && \
	(vg_rd.curr_file_type == CURR_FILE_NORMAL ==> (vg_rd.curr_file != NULL && vg_rd.curr_file == vg_B.cur)) && \
	(vg_rd.curr_file_type == CURR_FILE_FAKE_DIR ==> (vg_rd.curr_file != NULL && vg_where[VG_IDX(vg_rd.curr_file)] == 3)) && \
	(vg_rd.curr_file_type == CURR_FILE_DEFERRED_SYMLINK ==> (vg_rd.curr_file != NULL && vg_where[VG_IDX(vg_rd.curr_file)] == 3 && \
	                       vg_B.cur == NULL && vg_B.eof && vg_rd.dir_stack == NULL)) && \
	(vg_rd.curr_file_type == CURR_FILE_EOF ==> (vg_rd.curr_file == NULL && vg_B.cur == NULL && vg_B.eof && vg_rd.dir_stack == NULL && vg_rd.deferred_symlinks == NULL)) && \
	(vg_B.cur != NULL ==> (!vg_B.eof && vg_where[VG_IDX(vg_B.cur)] != 3)) && \
	((vg_B.cur == NULL && vg_rd.curr_file_type != CURR_FILE_START) ==> vg_B.eof) && \
	((vg_B.cur != NULL && vg_rd.curr_file_type != CURR_FILE_NORMAL) ==> vg_where[VG_IDX(vg_B.cur)] == 0) && \
	((vg_rd.curr_file_type != CURR_FILE_FAKE_DIR && vg_rd.curr_file_type != CURR_FILE_DEFERRED_SYMLINK) ==> \
	   (vg_where[0] != 3 && vg_where[1] != 3 && vg_where[2] != 3 && vg_where[3] != 3 && vg_where[4] != 3 && vg_where[5] != 3)))

/* the symlink-target arena holds a NUL-terminated string of length vg_tlen */
#define VG_TGT_OK (vg_tlen < VG_TB && vg_tgt[vg_tlen] == 0 && \
	__CPROVER_forall { size_t vj_; (vj_ < VG_TB) ==> (vj_ < vg_tlen ==> vg_tgt[vj_] != 0) })
/* the deferred list before the call is the ghost sequence, sorted, and does not contain the current header (pool header 0) */
#define VG_DEFERRED_PRE (vg_n < VG_NH && VG_LIST_SEQ(vg_rd.deferred_symlinks) && VG_SEQ_SORTED && VG_SEQ_HAS_NOT(0))
/* new sequence after inserting header 0 at position K */
#define VG_NEWSEQ(K, j) ((j) < (K) ? vg_seq[(j) < VG_NH ? (j) : 0] : (j) == (K) ? (size_t) 0 : vg_seq[(j) - 1 < VG_NH ? (j) - 1 : 0])
/* header 0 was spliced into the deferred list at position vg_k: link vg_J, list end, sorted pair vg_J */
#define VG_SPLICED (vg_k <= vg_n && \
	(vg_J == 0 ? vg_rd.deferred_symlinks : vg_h[VG_NEWSEQ(vg_k, vg_J - 1)]._next) == &vg_h[VG_NEWSEQ(vg_k, vg_J)] && \
	vg_h[VG_NEWSEQ(vg_k, vg_n)]._next == NULL && \
	(vg_J < vg_n ==> VG_PLEN(VG_NEWSEQ(vg_k, vg_J)) >= VG_PLEN(VG_NEWSEQ(vg_k, vg_J + 1))))

/* metadata of header H applied to path P (U0/O0/M0 = utime/chown/chmod call counts before) */
#define VG_HAVE(H, F) (((H).extra_flags & (F)) != 0)
#define VG_META_DONE(H, P, U0, O0, M0) ( \
	vg_F.utimes == (U0) + ((H).timestamp != 0 ? 1u : 0u) && \
	((H).timestamp != 0 ==> (vg_F.utime_path == (P) && vg_F.utime_ts == (H).timestamp)) && \
	vg_F.chowns == (O0) + (VG_HAVE(H, LHA_FILE_UNIX_UID_GID) ? 1u : 0u) && \
	(VG_HAVE(H, LHA_FILE_UNIX_UID_GID) ==> (vg_F.chown_path == (P) && vg_F.chown_uid == (int) (H).unix_uid && vg_F.chown_gid == (int) (H).unix_gid)) && \
	vg_F.chmods == (M0) + (VG_HAVE(H, LHA_FILE_UNIX_PERMS) ? 1u : 0u) && \
	(VG_HAVE(H, LHA_FILE_UNIX_PERMS) ==> (vg_F.chmod_path == (P) && vg_F.chmod_perms == (int) (H).unix_perms && vg_F.chmod_at == vg_F.seq)))
#define VG_META_NONE(U0, O0, M0) (vg_F.utimes == (U0) && vg_F.chowns == (O0) && vg_F.chmods == (M0))

/* ---- contract of extract_symlink, shared by the @fn clause (dispatcher groups replace the call by it) and by the
   legacy harness that checks it around the real call.  R result, FN filename argument, T entry type, then entry
   values: symlink / fopen / fclose counts, reference count and add_ref calls, list head, full-path allocations. */
#define VG_XS_NAME(FN) ((FN) != NULL ? (FN) : (char *) vg_tmpname)
#define VG_XS_POST(R, FN, T, SL0, FO0, FC0, REF0, AR0, HEAD0, TA0) ( \
	/* C20: the temporary path string is released on every way out */ \
	!vg_M.tmp_live && vg_M.tmp_allocs - (TA0) <= 1 && \
	/* no name could be built: nothing happens */ \
	(((FN) == NULL && vg_M.tmp_allocs == (TA0)) ==> ((R) == 0 && vg_F.symlinks == (SL0) && vg_F.fopens == (FO0) && \
	        vg_rd.deferred_symlinks == (HEAD0) && vg_ref[0] == (REF0) && vg_addref_calls == (AR0))) && \
	(((FN) != NULL || vg_M.tmp_allocs != (TA0)) ==> ( \
	  vg_F.symlinks - (SL0) <= 1 && \
	  /* the link is NOT made now: only for a dangerous link met in the archive; a private placeholder file takes its place */ \
	  (vg_F.symlinks == (SL0) ==> ((T) == CURR_FILE_NORMAL && (vg_tgt[0] == '/' || (vg_w_set && VG_COMP(vg_w))) && \
	        vg_F.fopens == (FO0) + 1 && vg_F.fopen_name == VG_XS_NAME(FN) && vg_F.fopen_uid == -1 && vg_F.fopen_gid == -1 && vg_F.fopen_perms == 0600 && \
	        !vg_F.file_open && vg_F.fcloses == (FC0) + ((R) != 0 ? 1u : 0u) && \
	        ((R) != 0 ==> (vg_ref[0] == (REF0) + 1 && vg_addref_calls == (AR0) + 1 && VG_SPLICED)) && \
	        ((R) == 0 ==> (vg_rd.deferred_symlinks == (HEAD0) && vg_ref[0] == (REF0) && vg_addref_calls == (AR0))))) && \
	  /* the link IS made now: never for a dangerous link met in the archive (any '..' position vg_X); nothing is deferred */ \
	  (vg_F.symlinks != (SL0) ==> (!((T) == CURR_FILE_NORMAL && (vg_tgt[0] == '/' || VG_COMP(vg_X))) && \
	        vg_F.symlink_path == VG_XS_NAME(FN) && vg_F.symlink_target == (char *) vg_tgt && (R) == vg_F.symlink_r && \
	        vg_F.fopens == (FO0) && vg_rd.deferred_symlinks == (HEAD0) && vg_ref[0] == (REF0) && vg_addref_calls == (AR0))))))

/* ---- what extracting the current member (pool header 0, entry type NORMAL) means, by kind of member; shared by the
   contracts of extract_normal and lha_reader_extract.  Entry values: MK0 mkdir calls, OP0 decoder opens, then as VG_XS_POST. */
#define VG_IS_LINK0 (VG_IS_DIR(vg_h[0]) && vg_h[0].symlink_target != NULL)
#define VG_IS_DIRECTORY0 (VG_IS_DIR(vg_h[0]) && vg_h[0].symlink_target == NULL)
#define VG_XN_POST_FILE(R, FN, MK0, OP0, SL0, FO0, FC0, REF0, AR0, HEAD0, TA0, STK0) ( \
	/* a file: C07 verdict; no directory or link is made, the lists are not touched */ \
	(!VG_IS_DIR(vg_h[0]) ==> (((R) != 0 ==> ((VG_D1 || VG_D2) && vg_D.total == vg_h[0].length && vg_D.crc == vg_h[0].crc)) && \
	        (((R) != 0 && VG_D1) ==> (vg_F.wtotal == vg_h[0].length && vg_D.ended)) && \
	        vg_F.mkdirs == (MK0) && vg_F.symlinks == (SL0) && !vg_F.file_open && !vg_M.tmp_live && \
	        vg_rd.deferred_symlinks == (HEAD0) && vg_rd.dir_stack == (STK0) && vg_ref[0] == (REF0))))
#define VG_XN_POST_LINK(R, FN, MK0, OP0, SL0, FO0, FC0, REF0, AR0, HEAD0, TA0, STK0) ( \
	/* a symbolic link: contract of extract_symlink; nothing is decoded, no directory is made */ \
	(VG_IS_LINK0 ==> (VG_XS_POST(R, FN, CURR_FILE_NORMAL, SL0, FO0, FC0, REF0, AR0, HEAD0, TA0) && \
	        vg_F.mkdirs == (MK0) && VG_D0 && vg_D.opens == (OP0) && vg_rd.dir_stack == (STK0))))
#define VG_XN_POST_DIR(R, FN, MK0, OP0, SL0, FO0, FC0, REF0, AR0, HEAD0, TA0, STK0) ( \
	/* a directory: one mkdir; nothing is decoded, no file or link is made; pushed at most once */ \
	(VG_IS_DIRECTORY0 ==> (vg_F.mkdirs == (MK0) + 1 && vg_F.symlinks == (SL0) && vg_F.fopens == (FO0) && VG_D0 && vg_D.opens == (OP0) && \
	        vg_rd.deferred_symlinks == (HEAD0) && \
	        ((vg_F.mkdir_r != 0 && vg_rd.dir_policy != LHA_READER_DIR_PLAIN) ? \
	            (vg_rd.dir_stack == &vg_h[0] && vg_h[0]._next == (STK0) && vg_ref[0] == (REF0) + 1) : \
	            (vg_rd.dir_stack == (STK0) && vg_ref[0] == (REF0))))))
/* facts every call site of the extraction functions has about the current member (pool header 0) */
#define VG_X_PRE (vg_rd.curr_file == &vg_h[0] && vg_rd.reader == VG_BR && VG_D0 && !vg_F.file_open && !vg_M.tmp_live && \
	(vg_h[0].symlink_target == NULL || vg_h[0].symlink_target == (char *) vg_tgt) && \
	(VG_IS_DIRECTORY0 ==> vg_h[0].path != NULL) && \
	VG_TGT_OK && vg_X < vg_tlen && vg_J <= vg_n && vg_k == 0 && !vg_w_set && VG_DEFERRED_PRE)

/* decoder configurations of the reader */
#define VG_D0 (vg_rd.decoder == NULL && vg_rd.inner_decoder == NULL && !vg_D.live0 && !vg_D.live1)
#define VG_D1 (vg_rd.decoder == &vg_dec[0] && vg_rd.inner_decoder == &vg_dec[0] && vg_D.live0 && !vg_D.live1)
#define VG_D2 (vg_rd.decoder == &vg_dec[1] && vg_rd.inner_decoder == &vg_dec[0] && vg_D.live0 && vg_D.live1)
/* not a state of the reader any more (open_decoder releases the inner decoder when the pass-through fails); kept so that
   close_decoder can be shown to cope with it all the same */
#define VG_D3 (vg_rd.decoder == NULL && vg_rd.inner_decoder == &vg_dec[0] && vg_D.live0 && !vg_D.live1)
#define VG_DVIEW (vg_D.total <= vg_D.slen && (vg_D.live1 ==> vg_D.ototal <= vg_D.oslen))

/* string predicates for the symlink target arena: vg_tlen = position of the first NUL */
size_t vg_tlen;
#define VG_COMP(X) ((X) < vg_tlen && (X) + 1 < vg_tlen && vg_tlen < VG_TB && ((X) == 0 || vg_tgt[(X) - 1] == '/') && vg_tgt[(X)] == '.' && vg_tgt[(X) + 1] == '.' && \
                    (vg_tgt[(X) + 2] == '/' || vg_tgt[(X) + 2] == 0))

#endif

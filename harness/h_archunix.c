/* Unit archunix: lib/lha_arch_unix.c -- the only place where the library touches the file system.

   C10 obligations carried here (call protocol against POSIX): every lha_arch_* function hands the path it
   was given -- the same pointer, the string untouched -- to the system call, never another path; a new output
   file is created by unlink(p) immediately followed by open(p, O_CREAT|O_EXCL|O_WRONLY) (so a symlink sitting
   at p is removed and, even if one reappears, is not followed); a symlink is created by unlink(path) then
   symlink(target, path); descriptor-based calls (fchown, fchmod, fdopen, close) only ever get the descriptor
   open() returned, and the descriptor is closed exactly once on every failure path.

   The POSIX functions are recording stubs: every call is appended to the ghost log vg_log[] (kind, path
   pointers, descriptor, two integer arguments, result); protocol facts that concern a single call are asserted
   in the stub, facts about the whole call sequence are postconditions (contracts/lib/lha_arch_unix.c.spec).
   All functions of the file are loop-free: DFCC enforcement of the woven contracts is a complete proof. */
#include "vg_common.h"
#include <stdio.h>
#include <stdarg.h>
#include <errno.h>
#include <fcntl.h>
#include <unistd.h>
#include <utime.h>
#include <sys/stat.h>
#include <sys/types.h>

#define VG_PMAX 64                     /* size of the path arenas; the code never looks inside them */
char vg_path[VG_PMAX], vg_target[VG_PMAX];

enum { VG_UNLINK = 1, VG_OPEN, VG_FCHOWN, VG_FCHMOD, VG_CLOSE, VG_REMOVE, VG_FDOPEN, VG_MKDIR, VG_CHOWN,
       VG_CHMOD, VG_UTIME, VG_STAT, VG_SYMLINK, VG_VASPRINTF };
typedef struct { int kind; const char *p1; const char *p2; int fd; long a, b; int ret; } vg_call_t;
#define VG_LOGMAX 8
vg_call_t vg_log[VG_LOGMAX];           /* ghost: the sequence of system calls made so far */
unsigned vg_seq;                       /* ghost: their number */
enum { VG_FD_NONE = 0, VG_FD_OPEN, VG_FD_CLOSED, VG_FD_IN_FILE };
int vg_fd = -1;                        /* ghost: descriptor returned by open() */
int vg_fd_state;                       /* ghost: who owns it */
int vg_errno;                          /* ghost: value stat() leaves in errno */
unsigned vg_st_mode;                   /* ghost: st_mode stat() reports */
FILE vg_file;                          /* the stream fdopen() hands out */
char **vg_va_result; char *vg_va_fmt;  /* vasprintf arguments */

/* one-line views of log entries for the contracts */
#define VG_IS(k, K, P)        (vg_log[k].kind == (K) && vg_log[k].p1 == (P))
#define VG_LAST               (vg_log[vg_seq - 1])
#define VG_ONLY_PATH(P)       __CPROVER_forall { unsigned vk_; (vk_ < VG_LOGMAX) ==> ((vk_ < vg_seq && vg_log[vk_].p1 != NULL) ==> vg_log[vk_].p1 == (P)) }
#define VG_LOG_EMPTY          (vg_seq == 0 && vg_fd == -1 && vg_fd_state == VG_FD_NONE)
#define VG_CREATE_FLAGS(f)    (((f) & (O_CREAT | O_EXCL | O_ACCMODE | O_TRUNC | O_APPEND)) == (O_CREAT | O_EXCL | O_WRONLY))

static unsigned vg_rec(int kind, const char *p1, const char *p2, int fd, long a, long b, int ret)
{
	unsigned k = vg_seq;
	__CPROVER_assert(k < VG_LOGMAX, "C10 protocol: no more system calls than the longest permitted sequence");
	vg_log[k].kind = kind; vg_log[k].p1 = p1; vg_log[k].p2 = p2; vg_log[k].fd = fd;
	vg_log[k].a = a; vg_log[k].b = b; vg_log[k].ret = ret;
	vg_seq = k + 1;
	return k;
}
static int vg_status(void) { return nondet_bool() ? 0 : -1; }

/* ASSUME: POSIX unlink/open/fchown/fchmod/close/remove/fdopen/mkdir/chown/chmod/utime/stat/symlink: each
   acts only on the object named by its path argument (resolved at the time of the call) or on the open file
   its descriptor argument refers to; open with O_CREAT|O_EXCL fails if the final path component exists,
   including when it is a symbolic link (POSIX: "if O_EXCL and O_CREAT are set, and path names a symbolic link,
   open() shall fail"); results are 0 / -1 (open: a descriptor >= 0 or -1; fdopen: a stream or NULL); none of
   them writes through its path argument.  stat leaves any value in errno on failure. */
int unlink(const char *path)
{
	int r = vg_status();
	vg_rec(VG_UNLINK, path, NULL, -1, 0, 0, r);
	return r;
}
static int vg_open(const char *path, int flags, unsigned mode)
{
	int r = nondet_int();
	__CPROVER_assume(r >= -1);
	__CPROVER_assert(vg_seq >= 1 && VG_IS(vg_seq - 1, VG_UNLINK, path),
	                 "C10: unlink(p) is the call immediately before open(p): an object already at the final component is replaced");
	__CPROVER_assert((flags & (O_CREAT | O_EXCL)) == (O_CREAT | O_EXCL),
	                 "C10: open() carries O_CREAT|O_EXCL: a symlink at the final component is never followed");
	__CPROVER_assert((flags & O_ACCMODE) == O_WRONLY && (flags & (O_TRUNC | O_APPEND)) == 0,
	                 "C10: the new file is opened write-only, nothing existing is truncated or appended to");
	__CPROVER_assert(vg_fd_state == VG_FD_NONE, "protocol: one open() per output file");
	vg_rec(VG_OPEN, path, NULL, -1, flags, (long) mode, r);
	vg_fd = r;
	vg_fd_state = r >= 0 ? VG_FD_OPEN : VG_FD_NONE;
	return r;
}
/* open() is variadic; the only call in the file has three arguments (a two-argument call would not compile) */
#define open(p, f, m) vg_open(p, f, m)
int fchown(int fd, uid_t uid, gid_t gid)
{
	int r = vg_status();
	__CPROVER_assert(fd == vg_fd && vg_fd_state == VG_FD_OPEN, "C10: fchown acts on the descriptor open() returned, while it is open");
	vg_rec(VG_FCHOWN, NULL, NULL, fd, (long) uid, (long) gid, r);
	return r;
}
int fchmod(int fd, mode_t mode)
{
	int r = vg_status();
	__CPROVER_assert(fd == vg_fd && vg_fd_state == VG_FD_OPEN, "C10: fchmod acts on the descriptor open() returned, while it is open");
	vg_rec(VG_FCHMOD, NULL, NULL, fd, (long) mode, 0, r);
	return r;
}
int close(int fd)
{
	int r = vg_status();
	__CPROVER_assert(fd == vg_fd && vg_fd_state == VG_FD_OPEN, "close: the descriptor open() returned, not yet closed nor owned by a stream (no double close)");
	vg_rec(VG_CLOSE, NULL, NULL, fd, 0, 0, r);
	vg_fd_state = VG_FD_CLOSED;
	return r;
}
int remove(const char *path)
{
	int r = vg_status();
	__CPROVER_assert(vg_seq >= 2 && VG_IS(1, VG_OPEN, path) && vg_log[1].ret >= 0,
	                 "C10: remove(p) only deletes the file this call created with open(p, O_CREAT|O_EXCL)");
	vg_rec(VG_REMOVE, path, NULL, -1, 0, 0, r);
	return r;
}
FILE *fdopen(int fd, const char *mode)
{
	FILE *r = nondet_bool() ? &vg_file : NULL;
	__CPROVER_assert(fd == vg_fd && vg_fd_state == VG_FD_OPEN, "fdopen: the descriptor open() returned, still open");
	__CPROVER_assert(mode[0] == 'w' && mode[1] != '+' && (mode[1] == 0 || mode[2] != '+'), "fdopen: write-only stream mode");
	vg_rec(VG_FDOPEN, NULL, NULL, fd, 0, 0, r != NULL);
	if (r != NULL) vg_fd_state = VG_FD_IN_FILE;
	return r;
}
int mkdir(const char *path, mode_t mode)
{
	int r = vg_status();
	vg_rec(VG_MKDIR, path, NULL, -1, (long) mode, 0, r);
	return r;
}
int chown(const char *path, uid_t uid, gid_t gid)
{
	int r = vg_status();
	vg_rec(VG_CHOWN, path, NULL, -1, (long) uid, (long) gid, r);
	return r;
}
int chmod(const char *path, mode_t mode)
{
	int r = vg_status();
	vg_rec(VG_CHMOD, path, NULL, -1, (long) mode, 0, r);
	return r;
}
int utime(const char *path, const struct utimbuf *times)
{
	int r = vg_status();
	__CPROVER_assert(times != NULL, "utime: explicit times (NULL would mean 'now')");
	vg_rec(VG_UTIME, path, NULL, -1, (long) times->actime, (long) times->modtime, r);
	return r;
}
static int vg_stat(const char *path, struct stat *buf)
{
	int r = vg_status();
	vg_rec(VG_STAT, path, NULL, -1, 0, 0, r);
	buf->st_mode = vg_st_mode;
	return r;
}
/* function-like, so that `struct stat` is left alone */
#define stat(p, b) vg_stat(p, b)
int symlink(const char *target, const char *linkpath)
{
	int r = vg_status();
	__CPROVER_assert(vg_seq >= 1 && VG_IS(vg_seq - 1, VG_UNLINK, linkpath),
	                 "C10: unlink(path) is the call immediately before symlink(target, path): an existing object there is replaced, not followed");
	vg_rec(VG_SYMLINK, linkpath, target, -1, 0, 0, r);
	return r;
}
/* ASSUME: vasprintf formats into a fresh string; here only the pass-through of the arguments is recorded. */
int vasprintf(char **result, const char *fmt, va_list args)
{
	int r = nondet_int();
	(void) args;
	vg_va_result = result; vg_va_fmt = (char *) fmt;
	vg_rec(VG_VASPRINTF, NULL, NULL, -1, 0, 0, r);
	return r;
}
/* errno as left behind by the failing stat(): a ghost value chosen by the harness (prophecy) */
#undef errno
#define errno vg_errno

#include "lib/lha_arch_unix.c"

static void vg_havoc(void)
{
	__CPROVER_havoc_object(vg_path);
	__CPROVER_havoc_object(vg_target);
	__CPROVER_havoc_object(vg_log);
	vg_seq = 0; vg_fd = -1; vg_fd_state = VG_FD_NONE;
	vg_errno = nondet_int();
	vg_st_mode = nondet_uint();
}

void h_fopen(void) { char *f; int u, g, p; vg_havoc(); lha_arch_fopen(f, u, g, p); VG_CANARY("lha_arch_fopen"); }
void h_symlink(void) { char *p, *t; vg_havoc(); lha_arch_symlink(p, t); VG_CANARY("lha_arch_symlink"); }
void h_mkdir(void) { char *p; unsigned m; vg_havoc(); lha_arch_mkdir(p, m); VG_CANARY("lha_arch_mkdir"); }
void h_chown(void) { char *p; int u, g; vg_havoc(); lha_arch_chown(p, u, g); VG_CANARY("lha_arch_chown"); }
void h_chmod(void) { char *p; int m; vg_havoc(); lha_arch_chmod(p, m); VG_CANARY("lha_arch_chmod"); }
void h_utime(void) { char *p; unsigned t; vg_havoc(); lha_arch_utime(p, t); VG_CANARY("lha_arch_utime"); }
void h_exists(void) { char *p; vg_havoc(); lha_arch_exists(p); VG_CANARY("lha_arch_exists"); }
void h_set_binary(void) { FILE *f; vg_havoc(); lha_arch_set_binary(f); VG_CANARY("lha_arch_set_binary"); }
/* lha_arch_vasprintf only forwards a va_list: checked around the real call (loop-free, complete) */
static int vg_call_vasprintf(char **result, char *fmt, ...)
{
	va_list args; int r;
	va_start(args, fmt);
	r = lha_arch_vasprintf(result, fmt, args);
	va_end(args);
	return r;
}
void h_vasprintf(void)
{
	char *out; char fmt[4]; int r;
	vg_havoc();
	r = vg_call_vasprintf(&out, fmt, 1);
	__CPROVER_assert(vg_seq == 1 && vg_log[0].kind == VG_VASPRINTF && vg_va_result == &out && vg_va_fmt == fmt && r == vg_log[0].ret,
	                 "lha_arch_vasprintf: one vasprintf call with the arguments passed through, result returned unchanged");
	VG_CANARY("lha_arch_vasprintf");
}

/* Shared vocabulary for the `print` unit (C18): output sinks of the command-line tool as checking stubs,
   symbolic archive headers, stand-ins for non-printing callees.

   The obligation of C18 sits in the SINKS: every byte handed to libc output must be in
   {0x20..0x7E, LF, CR, TAB}; bytes that come in through %s / %c arguments must be 0x20..0x7E
   (the tool's own LF/CR/TAB only ever appear in its literal format strings and literal %c arguments).
   The code under test is the unmodified text of src/safe.c, src/list.c, src/extract.c with the libc
   names redirected to the stubs below (#define after <stdio.h>). */
#ifndef VG_PRINT_H
#define VG_PRINT_H
#include "vg_common.h"
#include <stdio.h>
#include <stdarg.h>
#include <time.h>
#include <ctype.h>
#include <sys/stat.h>

/* ---------------------------------------------------------------- byte classes ------------------ */
#define VG_PRINTABLE_BYTE(c) ((unsigned char)(c) >= 0x20 && (unsigned char)(c) <= 0x7e)
#define VG_OWN_BYTE(c)       (VG_PRINTABLE_BYTE(c) || (c) == '\n' || (c) == '\r' || (c) == '\t')
/* what safe_output must turn a byte into */
#define VG_SAN(c)            (VG_PRINTABLE_BYTE(c) ? (unsigned char)(c) : (unsigned char)'?')

/* ---------------------------------------------------------------- ghost state ------------------- */
/* vg_quiet > 0: control is inside a callee that is reached through a function pointer (column handler /
   footer / progress callback) and whose own group carries its sink obligations; the sinks then check
   memory safety only.  Set by ghost statements woven around the pointer call (contracts/src/list.c.spec)
   and by the lha_reader_check / lha_reader_extract stand-ins in h_print_extract.c. */
int vg_quiet;
/* number of calls of checking sinks / of the raw (file data) sink */
unsigned vg_sunk;
unsigned vg_raw_sunk;

/* safe.c groups: the sanitiser is proved for unbounded strings, so the sink cannot walk to the NUL.
   PRINTABLE(s) == exists n. s[n]==0 && forall i<n. printable(s[i]); the witness n is supplied by a woven
   ghost assignment (vg_n = p - str, contracts/src/safe.c.spec).  VG_B is only the size of the ghost
   object the string lives in; the proof is by induction over the loop. */
#ifndef VG_B
#define VG_B 300
#endif
size_t vg_n;          /* witness for the terminator position handed to the sink  */
size_t vg_len;        /* Skolem: position of the first NUL of the input string   */
size_t vg_k;          /* Skolem: one arbitrary tracked byte position             */
unsigned char vg_old; /* its original value                                      */

/* ---------------------------------------------------------------- sinks ------------------------- */
/* The libc output functions are variadic; the legacy loop-contract pass of goto-instrument inlines callees
   and drops the va_args of variadic ones (measured), so the redirection is done with function-like macros
   that box every argument (_Generic) into six by-value slots: the sinks below are ordinary functions.  This
   also lets them check that each conversion gets an argument of the right kind. */
typedef struct { unsigned char tag; const char *s; long long v; } vg_arg_t;   /* tag 0 none, 1 string, 2 integer, 3 floating */
static vg_arg_t vg_box_s(const char *s) { vg_arg_t a; a.tag = 1; a.s = s; a.v = 0; return a; }
static vg_arg_t vg_box_us(const unsigned char *s) { return vg_box_s((const char *) s); }
static vg_arg_t vg_box_i(long long v)   { vg_arg_t a; a.tag = 2; a.s = NULL; a.v = v; return a; }
static vg_arg_t vg_box_f(double d)      { vg_arg_t a; (void) d; a.tag = 3; a.s = NULL; a.v = 0; return a; }
#define VG_BOX(x) _Generic((x) + 0, char *: vg_box_s, const char *: vg_box_s, unsigned char *: vg_box_us, const unsigned char *: vg_box_us, float: vg_box_f, double: vg_box_f, default: vg_box_i)((x) + 0)
static vg_arg_t vg_box_none(void)       { vg_arg_t a; a.tag = 0; a.s = NULL; a.v = 0; return a; }
#define VG_NOARG  vg_box_none()
#define VG_NARG_(f, a1, a2, a3, a4, a5, a6, N, ...) N
#define VG_NARG(...) VG_NARG_(__VA_ARGS__, 6, 5, 4, 3, 2, 1, 0, x)
#define VG_CAT_(a, b) a##b
#define VG_CAT(a, b) VG_CAT_(a, b)
#define VG_ARGS0(f)                    f, 0, VG_NOARG, VG_NOARG, VG_NOARG, VG_NOARG, VG_NOARG, VG_NOARG
#define VG_ARGS1(f, a)                 f, 1, VG_BOX(a), VG_NOARG, VG_NOARG, VG_NOARG, VG_NOARG, VG_NOARG
#define VG_ARGS2(f, a, b)              f, 2, VG_BOX(a), VG_BOX(b), VG_NOARG, VG_NOARG, VG_NOARG, VG_NOARG
#define VG_ARGS3(f, a, b, c)           f, 3, VG_BOX(a), VG_BOX(b), VG_BOX(c), VG_NOARG, VG_NOARG, VG_NOARG
#define VG_ARGS4(f, a, b, c, d)        f, 4, VG_BOX(a), VG_BOX(b), VG_BOX(c), VG_BOX(d), VG_NOARG, VG_NOARG
#define VG_ARGS5(f, a, b, c, d, e)     f, 5, VG_BOX(a), VG_BOX(b), VG_BOX(c), VG_BOX(d), VG_BOX(e), VG_NOARG
#define VG_ARGS6(f, a, b, c, d, e, g)  f, 6, VG_BOX(a), VG_BOX(b), VG_BOX(c), VG_BOX(d), VG_BOX(e), VG_BOX(g)
#define VG_ARGS(...) VG_CAT(VG_ARGS, VG_NARG(__VA_ARGS__))(__VA_ARGS__)

/* PRINTABLE(s) for an argument of %s.  Bounded-string groups walk to the NUL (the unwinding assertion
   makes an unterminated or over-long string a failure, never a silent pass). */
static size_t vg_check_printable(const char *s)
{
	size_t k = 0;
#ifdef VG_SINK_WITNESS
	if (!vg_quiet) {
		__CPROVER_assert(vg_n < VG_B && s[vg_n] == 0,
		                 "C18 sink: %s argument is NUL-terminated at the witness position");
		__CPROVER_assert(__CPROVER_forall { size_t vi_; (vi_ < VG_B) ==> (vi_ < vg_n ==> VG_PRINTABLE_BYTE(s[vi_])) },
		                 "C18 sink: every byte of the %s argument is printable ASCII 0x20..0x7E");
	}
	return vg_n;
#else
	__CPROVER_assert(s != NULL, "C08 sink: %s argument is not NULL");
	for (k = 0; s[k] != 0; k++) {
		if (!vg_quiet) {
			__CPROVER_assert(VG_PRINTABLE_BYTE(s[k]),
			                 "C18 sink: every byte of a %s argument is printable ASCII 0x20..0x7E");
		}
	}
	return k;
#endif
}

/* ASSUME: libc printf family: output bytes are exactly the format's ordinary characters, the bytes of
   %s arguments up to their NUL (padded with spaces to the field width), the %c argument, and for the
   numeric conversions d i u x X o f (with flags, width, precision, length modifiers h l z) ASCII digits,
   sign, point, space padding, "inf"/"nan" - all printable ASCII; the return value counts the bytes. */
static int vg_out(FILE *stream, const char *fmt, unsigned nargs, vg_arg_t a0, vg_arg_t a1, vg_arg_t a2, vg_arg_t a3, vg_arg_t a4, vg_arg_t a5)
{
	vg_arg_t cur;
	size_t i = 0;
	unsigned a = 0;
	int n = 0;
	(void) stream;
	__CPROVER_assert(fmt != NULL, "C08 sink: format is not NULL");
	while (fmt[i] != 0) {
		char c = fmt[i++];
		if (c != '%') {
			if (!vg_quiet) {
				__CPROVER_assert(VG_OWN_BYTE(c),
				                 "C18 sink: format text is printable ASCII or LF/CR/TAB (a literal of the program)");
			}
			n++;
			continue;
		}
		while (fmt[i] == '-' || fmt[i] == '0' || fmt[i] == ' ' || fmt[i] == '+' || fmt[i] == '#') i++;
		__CPROVER_assert(fmt[i] != '*', "[stub-limit] sink stub: '*' width not used by the tool");
		while (fmt[i] >= '0' && fmt[i] <= '9') i++;
		if (fmt[i] == '.') {
			i++;
			__CPROVER_assert(fmt[i] != '*', "[stub-limit] sink stub: '*' precision not used by the tool");
			while (fmt[i] >= '0' && fmt[i] <= '9') i++;
		}
		while (fmt[i] == 'l' || fmt[i] == 'h' || fmt[i] == 'z') i++;
		c = fmt[i++];
		if (c == '%') {
			n++;
			continue;
		}
		__CPROVER_assert(a < nargs && a < 6, "C08 sink: every conversion has an argument");
		cur = a == 0 ? a0 : a == 1 ? a1 : a == 2 ? a2 : a == 3 ? a3 : a == 4 ? a4 : a5;
		if (c == 's') {
			__CPROVER_assert(cur.tag == 1, "C08 sink: %s gets a string argument");
			n += (int) vg_check_printable(cur.s);
		} else if (c == 'c') {
			__CPROVER_assert(cur.tag == 2, "C08 sink: %c gets an integer argument");
			if (!vg_quiet) {
				__CPROVER_assert(VG_OWN_BYTE(cur.v) && cur.v >= 0 && cur.v <= 255,
				                 "C18 sink: %c argument is printable ASCII or LF/CR/TAB");
			}
			n++;
		} else if (c == 'd' || c == 'i' || c == 'u' || c == 'x' || c == 'X' || c == 'o') {
			int w = nondet_int();
			__CPROVER_assert(cur.tag == 2, "C08 sink: integer conversion gets an integer argument");
			__CPROVER_assume(w >= 1 && w <= 64);
			n += w;
		} else if (c == 'f') {
			int w = nondet_int();
			__CPROVER_assert(cur.tag == 3, "C08 sink: %f gets a floating argument");
			__CPROVER_assume(w >= 1 && w <= 400);
			n += w;
		} else {
			__CPROVER_assert(0, "[stub-limit] sink stub: conversion not modelled (extend vg_print.h)");
		}
		a++;
	}
	__CPROVER_assert(a == nargs, "[stub-limit] sink stub: every argument is consumed by a conversion");
	vg_sunk++;
	return n;
}

static int vg_fputs(const char *s, FILE *stream)
{
	(void) stream;
	vg_check_printable(s); vg_sunk++;
	return 1;
}
static int vg_puts(const char *s) { vg_check_printable(s); vg_sunk++; return 1; }
static int vg_putchar(int ch)
{
	if (!vg_quiet) __CPROVER_assert(VG_OWN_BYTE(ch) && ch == (int)(unsigned char) ch, "C18 sink: putchar argument is printable ASCII or LF/CR/TAB");
	vg_sunk++;
	return ch;
}
static int vg_fputc(int ch, FILE *stream) { (void) stream; return vg_putchar(ch); }

/* The one permitted raw sink: file DATA dumped by 'lha p' (print_archived_file in extract.c).  No byte-class
   obligation; the source range must be readable (C08).  The harness of every function other than
   print_archived_file / print_archive asserts vg_raw_sunk == 0 so that no header text can leave this way.
   ASSUME: fwrite reads nmemb*size bytes from ptr and returns a count <= nmemb. */
static size_t vg_fwrite(const void *ptr, size_t size, size_t nmemb, FILE *stream)
{
	size_t r = nondet_size_t();
	(void) stream;
	__CPROVER_assert(size == 0 || nmemb == 0 || __CPROVER_r_ok(ptr, size * nmemb), "C08 sink: fwrite source range readable");
	__CPROVER_assume(r <= nmemb);
	vg_raw_sunk++;
	return r;
}
/* ASSUME: fflush writes nothing new. */
static int vg_fflush(FILE *stream) { (void) stream; return 0; }

/* Other libc ways of writing to the terminal are not used by the three files; a (future) use must not escape silently as
   a body-less call, so each of these names is turned into an undeclared identifier VG_SINK_NOT_MODELLED_<name>: a call to
   it shows up as a failed "no body" obligation, which the engine classifies as undecided (exit 2) until it is modelled. */
#define VG_POISON(name) VG_SINK_NOT_MODELLED_##name
#define write            VG_POISON(write)
#define pwrite           VG_POISON(pwrite)
#define dprintf          VG_POISON(dprintf)
#define vdprintf         VG_POISON(vdprintf)
#define perror           VG_POISON(perror)
#define putw             VG_POISON(putw)
#define fputs_unlocked   VG_POISON(fputs_unlocked)
#define fputc_unlocked   VG_POISON(fputc_unlocked)
#undef putc_unlocked
#define putc_unlocked    VG_POISON(putc_unlocked)
#undef putchar_unlocked
#define putchar_unlocked VG_POISON(putchar_unlocked)
#define fwrite_unlocked  VG_POISON(fwrite_unlocked)
#define wprintf          VG_POISON(wprintf)
#define fwprintf         VG_POISON(fwprintf)
#define system           VG_POISON(system)
#define popen            VG_POISON(popen)
#define syslog           VG_POISON(syslog)
#define printf(...)          vg_out(NULL, VG_ARGS(__VA_ARGS__))
#define fprintf(stream, ...) vg_out(stream, VG_ARGS(__VA_ARGS__))
/* vprintf / vfprintf: checking sinks over a va_list (same obligations as vg_out: literal format text is the program's own,
   every %s argument must be printable ASCII, %c likewise; numeric conversions are ASCII by the libc contract).
   ASSUME: libc vfprintf formats as printf does (see vg_out). */
static int vg_vfprintf(FILE *stream, const char *fmt, va_list ap)
{
	size_t i = 0;
	int n = 0;
	(void) stream;
	__CPROVER_assert(fmt != NULL, "C08 sink: format is not NULL");
	while (fmt[i] != 0) {
		char c = fmt[i++];
		if (c != '%') {
			if (!vg_quiet) __CPROVER_assert(VG_OWN_BYTE(c), "C18 sink: format text is printable ASCII or LF/CR/TAB (a literal of the program)");
			n++;
			continue;
		}
		while (fmt[i] == '-' || fmt[i] == '0' || fmt[i] == ' ' || fmt[i] == '+' || fmt[i] == '#') i++;
		__CPROVER_assert(fmt[i] != '*', "[stub-limit] sink stub: '*' width not used by the tool");
		while (fmt[i] >= '0' && fmt[i] <= '9') i++;
		if (fmt[i] == '.') { i++; __CPROVER_assert(fmt[i] != '*', "[stub-limit] sink stub: '*' precision not used by the tool"); while (fmt[i] >= '0' && fmt[i] <= '9') i++; }
		while (fmt[i] == 'l' || fmt[i] == 'h' || fmt[i] == 'z') i++;
		c = fmt[i++];
		if (c == '%') { n++; continue; }
		if (c == 's') { const char *a = va_arg(ap, const char *); n += (int) vg_check_printable(a); }
		else if (c == 'c') { int a = va_arg(ap, int); if (!vg_quiet) __CPROVER_assert(VG_OWN_BYTE(a) && a >= 0 && a <= 255, "C18 sink: %c argument is printable ASCII or LF/CR/TAB"); n++; }
		else if (c == 'd' || c == 'i' || c == 'u' || c == 'x' || c == 'X' || c == 'o') { (void) va_arg(ap, long long); n += 1; }
		else if (c == 'f') { (void) va_arg(ap, double); n += 1; }
		else { __CPROVER_assert(0, "[stub-limit] sink stub: conversion not modelled (extend vg_print.h)"); }
	}
	vg_sunk++;
	return n;
}
static int vg_vprintf(const char *fmt, va_list ap) { return vg_vfprintf(NULL, fmt, ap); }
#define vprintf   vg_vprintf
#define vfprintf  vg_vfprintf
#define fputs    vg_fputs
#define puts     vg_puts
#undef putchar
#define putchar  vg_putchar
#define fputc    vg_fputc
#undef putc
#define putc     vg_fputc
#define fwrite   vg_fwrite
#define fflush   vg_fflush

/* ---------------------------------------------------------------- safe_printf stand-in ---------- */
/* In the list.c / extract.c harnesses safe.c is not part of the translation unit; safe_printf and
   safe_fprintf are variadic, which CBMC's contract replacement does not handle, so their proved contract
   (groups print.safe_printf / print.safe_fprintf in h_print_safe.c: whatever the formatting result is,
   only bytes 0x20..0x7E reach the stream) is applied here by hand: nothing reaches a checking sink.
   What is still checked at every call site is the callee's precondition, i.e. vasprintf's: the format
   is a valid string, every conversion has an argument of its kind, and every %s argument is a readable
   NUL-terminated string (C08). */
#ifndef VG_REAL_SAFE
#include "safe.h"
unsigned vg_safe_sunk;
static int vg_safe_out(FILE *stream, const char *fmt, unsigned nargs, vg_arg_t a0, vg_arg_t a1, vg_arg_t a2, vg_arg_t a3, vg_arg_t a4, vg_arg_t a5)
{
	/* same format walk as the checking sink, with the byte-class obligations off: what remains is the
	   formatter's precondition (valid format, one argument of the right kind per conversion, every %s
	   argument a non-NULL NUL-terminated string) */
	vg_quiet++;
	(void) vg_out(stream, fmt, nargs, a0, a1, a2, a3, a4, a5);
	vg_quiet--;
	vg_sunk--;
	vg_safe_sunk++;
	return nondet_int();
}
#define safe_printf(...)          vg_safe_out(NULL, VG_ARGS(__VA_ARGS__))
#define safe_fprintf(stream, ...) vg_safe_out(stream, VG_ARGS(__VA_ARGS__))
#endif

/* ---------------------------------------------------------------- symbolic archive header ------- */
#ifdef VG_WITH_HEADER
#include "lha_reader.h"
#include "filter.h"
#include "options.h"

/* Header strings: "bounded strings" - at most VG_S bytes, EVERY byte value (a 0 byte simply ends the
   string earlier).  The sinks check per byte and the only unbounded sanitiser, safe_output, is proved
   inductively, so nothing depends on the length except the unwinding. */
#ifndef VG_S
#define VG_S 8
#endif
LHAFileHeader vg_hdr;
char vg_path[VG_S + 1], vg_filename[VG_S + 1], vg_target[VG_S + 1], vg_user[VG_S + 1], vg_group[VG_S + 1];
uint8_t vg_raw[4];

/* An arbitrary decoded header as lha_file_header_read can produce it: every numeric field arbitrary,
   compress_method = 5 arbitrary bytes + NUL (lib/lha_file_header.c copies the 5 raw bytes unchecked),
   each string field NULL or an arbitrary NUL-terminated byte string. */
static LHAFileHeader *vg_any_header(void)
{
	__CPROVER_havoc_object(&vg_hdr);
	__CPROVER_havoc_object(vg_path);
	__CPROVER_havoc_object(vg_filename);
	__CPROVER_havoc_object(vg_target);
	__CPROVER_havoc_object(vg_user);
	__CPROVER_havoc_object(vg_group);
	vg_path[VG_S] = 0; vg_filename[VG_S] = 0; vg_target[VG_S] = 0; vg_user[VG_S] = 0; vg_group[VG_S] = 0;
	vg_hdr.compress_method[5] = 0;
	vg_hdr._next = NULL;
	vg_hdr.path = nondet_bool() ? vg_path : NULL;
	vg_hdr.filename = nondet_bool() ? vg_filename : NULL;
	vg_hdr.symlink_target = nondet_bool() ? vg_target : NULL;
	vg_hdr.unix_username = nondet_bool() ? vg_user : NULL;
	vg_hdr.unix_group = nondet_bool() ? vg_group : NULL;
	vg_hdr.raw_data = vg_raw;
	vg_hdr.raw_data_len = sizeof(vg_raw);
	return &vg_hdr;
}

LHAReader *vg_reader;       /* opaque: never dereferenced by src/ code */
LHAFilter vg_filter;
LHAOptions vg_options;
char vg_extract_path[VG_S + 1];

static void vg_any_options(void)
{
	__CPROVER_havoc_object(&vg_options);
	__CPROVER_havoc_object(vg_extract_path);
	vg_extract_path[VG_S] = 0;
	vg_options.extract_path = nondet_bool() ? vg_extract_path : NULL;
	__CPROVER_assume(vg_options.overwrite_policy == LHA_OVERWRITE_PROMPT ||
	                 vg_options.overwrite_policy == LHA_OVERWRITE_SKIP ||
	                 vg_options.overwrite_policy == LHA_OVERWRITE_ALL);
#ifdef VG_NO_PROMPT
	/* BOUND (whole-archive extract group only): no interactive overwrite prompt; the prompt path is covered per member in print.extract_archived_file */
	__CPROVER_assume(vg_options.overwrite_policy != LHA_OVERWRITE_PROMPT);
#endif
	vg_filter.reader = vg_reader;
	vg_filter.filters = NULL;
	vg_filter.num_filters = 0;
}

/* ASSUME: lha_filter_next_file returns NULL (end of archive / error) or a decoded header as described at
   vg_any_header; the previous header is dead by then (the reader frees it).
   BOUND: the per-archive loops of list.c / extract.c are unwound, so the stand-in ends the archive after
   at most VG_MEMBERS members (every member fully arbitrary and independent of the previous ones). */
#ifndef VG_MEMBERS
#define VG_MEMBERS 2
#endif
unsigned vg_members;
LHAFileHeader *lha_filter_next_file(LHAFilter *filter)
{
	__CPROVER_assert(filter == &vg_filter, "filter passed through unchanged");
	if (vg_members >= VG_MEMBERS || nondet_bool()) return NULL;
	vg_members++;
	return vg_any_header();
}
#endif

#endif

/* Unit extractcli, part 1: the non-printing logic of src/extract.c (C10; C08 for the path buffer).

   src/extract.c is owned by the print unit as far as woven clauses go (contracts/src/extract.c.spec); the
   contracts of THIS unit are therefore stated in harness mode: assumed / asserted around the real calls, plain
   route (loops unwound: every group that depends on a string length or on a number of members / answers is
   BOUNDED and says so in the plan).  The real text of src/extract.c runs unmodified.

   What reaches the file system from src/extract.c: lha_arch_mkdir (parent directories) and
   lha_reader_extract (everything else, inside lib/lha_reader.c).  Both are recording stubs here; in the
   no-mutation groups (-DVG_NO_MUTATION: test, print, dry run) reaching either of them is a failure. */
#include "vg_common.h"
#include <stdio.h>
#include <ctype.h>
#include "lib/lha_arch.h"
#include "lha_reader.h"
#include "filter.h"
#include "options.h"
#include "safe.h"

/* referenced by the print unit's loop contract on prompt_user, which is part of the woven text (inert in the plain route) */
int vg_quiet; unsigned vg_raw_sunk;

#ifndef VG_S
#define VG_S 6                          /* BOUND: extract_path, header path, header filename: at most VG_S bytes each */
#endif
#define VG_FULL (3 * VG_S + 1)          /* longest string file_full_path can build */
#define VG_CAP  (VG_FULL + 2)           /* capacity of the modelled heap block */

/* ---------------------------------------------------------------- symbolic inputs */
LHAFileHeader vg_hdr;
LHAOptions vg_options;
LHAFilter vg_filter;
LHAReader *vg_reader;                   /* opaque */
char vg_epath[VG_S + 1], vg_hpath[VG_S + 1], vg_hfile[VG_S + 1], vg_target[VG_S + 1];

static void vg_any_header(void)
{
	__CPROVER_havoc_object(&vg_hdr);
	__CPROVER_havoc_object(vg_hpath); __CPROVER_havoc_object(vg_hfile); __CPROVER_havoc_object(vg_target);
	vg_hpath[VG_S] = 0; vg_hfile[VG_S] = 0; vg_target[VG_S] = 0;
	vg_hdr.compress_method[5] = 0;
	vg_hdr.path = nondet_bool() ? vg_hpath : NULL;
	vg_hdr.filename = nondet_bool() ? vg_hfile : NULL;
	vg_hdr.symlink_target = nondet_bool() ? vg_target : NULL;
}
static void vg_any_options(void)
{
	__CPROVER_havoc_object(&vg_options);
	__CPROVER_havoc_object(vg_epath);
	vg_epath[VG_S] = 0;
	vg_options.extract_path = nondet_bool() ? vg_epath : NULL;
	__CPROVER_assume(vg_options.overwrite_policy == LHA_OVERWRITE_PROMPT || vg_options.overwrite_policy == LHA_OVERWRITE_SKIP ||
	                 vg_options.overwrite_policy == LHA_OVERWRITE_ALL);
	vg_filter.reader = vg_reader; vg_filter.filters = NULL; vg_filter.num_filters = 0;
}

/* ---------------------------------------------------------------- specification of the output path (C10)
   expected = [extract_path "/"] ++ (use_path ? path without its leading '/'s : "") ++ filename without its
   leading '/'s.  Consequences asserted separately: with no extract_path the result never starts with '/', with
   one it starts with extract_path "/" - a member name can not make the tool leave the extraction directory by
   being absolute ('..' components are removed by the library when the header is read: unit filehdr). */
char vg_want[VG_FULL + 1]; size_t vg_want_len;
static void vg_expected_path(void)
{
	size_t k = 0, i;
	if (vg_options.extract_path != NULL) {
		for (i = 0; vg_epath[i] != 0; i++) vg_want[k++] = vg_epath[i];
		vg_want[k++] = '/';
	}
	if (vg_options.use_path && vg_hdr.path != NULL) {
		for (i = 0; vg_hpath[i] == '/'; i++) { }
		for (; vg_hpath[i] != 0; i++) vg_want[k++] = vg_hpath[i];
	}
	if (vg_hdr.filename != NULL) {
		for (i = 0; vg_hfile[i] == '/'; i++) { }
		for (; vg_hfile[i] != 0; i++) vg_want[k++] = vg_hfile[i];
	}
	vg_want[k] = 0; vg_want_len = k;
}
/* ---------------------------------------------------------------- libc stand-ins */
/* ASSUME: printf / fprintf / safe_printf / safe_fprintf / fflush / fwrite(stdout) write to the terminal streams
   only: no file-system object is created or modified by them (their arguments are the print unit's subject). */
unsigned vg_prints;
static int vg_sink(void) { vg_prints++; return 0; }
#define printf(...)        vg_sink()
#define fprintf(...)       vg_sink()
#define safe_printf(...)   vg_sink()
#define safe_fprintf(...)  vg_sink()
#define fflush(s)          0
#define fwrite(p, s, n, f) ((void) vg_sink(), (size_t) (nondet_bool() ? (n) : 0))

/* ASSUME: getchar returns EOF or a byte.  BOUND: an answer line has at most VG_ANSWER_LEN characters, and the
   user gives a decisive answer (y n a s, any case, or an empty line) on the VG_ANSWERS-th prompt at the latest. */
#define VG_ANSWERS 2
#define VG_ANSWER_LEN 3
unsigned vg_line, vg_col, vg_getchars; int vg_first[VG_ANSWERS + 1];
#define VG_DECISIVE(c) ((c) == 'y' || (c) == 'Y' || (c) == 'n' || (c) == 'N' || (c) == 'a' || (c) == 'A' || (c) == 's' || (c) == 'S' || (c) == '\n')
static int vg_getchar(void)
{
	int c = nondet_int();
	__CPROVER_assume(c >= -1 && c <= 255 && c != 0);      /* no NUL bytes typed (prompt_user would take the next character as the first) */
	vg_getchars++;
	if (c < 0) return c;
	if (vg_col >= VG_ANSWER_LEN - 1) c = '\n';
	if (vg_col == 0) {
		if (vg_line >= VG_ANSWERS - 1) __CPROVER_assume(VG_DECISIVE(c));
		__CPROVER_assert(vg_line < VG_ANSWERS, "answer bound");
		vg_first[vg_line] = c;
	}
	if (c == '\n') { vg_line++; vg_col = 0; } else vg_col++;
	return c;
}
#undef getchar
#define getchar vg_getchar

/* ASSUME: malloc(n) returns NULL or a block of n bytes; strcat appends src (with its NUL) at dst's NUL.  The
   block has the constant capacity VG_CAP (a symbolic-size object makes this function undecidable in practice,
   measured by the print unit); the size ASKED FOR is ghost state and every strcat into the block must fit it:
   that is the C08 obligation "the size computation covers every byte written". */
char *vg_alloc_ptr; size_t vg_alloc_size;
static void *vg_malloc(size_t n)
{
	char *p;
	__CPROVER_assert(n >= 1 && n <= VG_CAP, "C08 malloc: size asked for = lengths of the parts + separators + NUL, no wrap-around");
	if (nondet_bool()) return NULL;
	p = malloc(VG_CAP);
	__CPROVER_assume(p != NULL);
	vg_alloc_ptr = p; vg_alloc_size = n;
	return p;
}
static char *vg_strcat(char *dst, const char *src)
{
	size_t d = strlen(dst), n = strlen(src), k;
	if (dst == vg_alloc_ptr) __CPROVER_assert(d + n + 1 <= vg_alloc_size, "C08 strcat: the result, with its NUL, fits the size malloc was asked for");
	for (k = 0; k <= n; k++) dst[d + k] = src[k];
	return dst;
}

/* ASSUME: strdup returns NULL or a fresh copy of its argument.  Constant capacity VG_DUP_CAP instead of
   strlen + 1 (a heap object of symbolic size exhausts the solver's memory, measured): accesses of
   make_parent_directories beyond the copy's NUL but inside the capacity would go unnoticed, so the groups that
   run it claim C10 only, not C08 (the print unit's groups cover its memory safety the same way). */
#ifndef VG_P
#define VG_P 8                          /* BOUND (make_parent_directories group): path of at most VG_P bytes */
#endif
#define VG_DUP_CAP ((VG_FULL > VG_P ? VG_FULL : VG_P) + 1)
static char *vg_strdup(const char *src)
{
	size_t n = strlen(src), k; char *p;
	__CPROVER_assert(n + 1 <= VG_DUP_CAP, "strdup stand-in: capacity suffices");
	if (nondet_bool()) return NULL;
	p = malloc(VG_DUP_CAP);
	__CPROVER_assume(p != NULL);
	for (k = 0; k <= n; k++) p[k] = src[k];
	return p;
}
#undef strdup
#define strdup vg_strdup

/* ---------------------------------------------------------------- file-system and reader stand-ins */
/* vg_ref: the output path every directory operation must be an ancestor of (NULL: no-mutation groups, where the
   mutating stand-ins are unreachable and queries are only checked for being valid strings).  For each call
   the stub checks the argument against vg_ref byte by byte and records its LENGTH: two verified prefixes of
   the same reference with the same length are the same string. */
#define VG_CALLS (VG_DUP_CAP / 2 + 3)  /* a path of n bytes has at most n/2 ancestors, plus the existence test of the path itself */
const char *vg_ref; size_t vg_ref_len;
unsigned vg_exists_calls, vg_mkdir_calls, vg_extract_calls, vg_fs_seq;
size_t vg_exists_n[VG_CALLS]; LHAFileType vg_exists_ret[VG_CALLS]; unsigned vg_exists_at[VG_CALLS];
size_t vg_mkdir_n[VG_CALLS]; int vg_mkdir_ret[VG_CALLS]; unsigned vg_mkdir_perm[VG_CALLS]; unsigned vg_mkdir_at[VG_CALLS];
int vg_extract_arg_null; unsigned vg_extract_at; int vg_extract_ret;
LHADecoderProgressCallback vg_extract_cb;
/* returns strlen(p); with a reference: p must be vg_ref[0..n) with n == vg_ref_len (only if whole_ok) or vg_ref[n] == '/' */
static size_t vg_check_path(const char *p, _Bool whole_ok)
{
	size_t n;
	__CPROVER_assert(p != NULL, "C08 file-system call: path is not NULL");
	for (n = 0; p[n] != 0; n++) {
		if (vg_ref != NULL) __CPROVER_assert(n < vg_ref_len && p[n] == vg_ref[n], "C10: the path handed to the file system is a prefix of the output path");
	}
	if (vg_ref != NULL) {
		__CPROVER_assert((whole_ok && n == vg_ref_len) || (n >= 1 && n < vg_ref_len && vg_ref[n] == '/'),
		                 "C10: the path handed to the file system is the output path itself or a proper ancestor directory of it (cut before a '/')");
	}
	return n;
}
/* ASSUME: lha_arch_exists is a query (stat): it changes nothing (group archunix.lha_arch_exists). */
LHAFileType lha_arch_exists(char *filename)
{
	unsigned k = nondet_uint(); LHAFileType r;
	r = k == 0 ? LHA_FILE_NONE : k == 1 ? LHA_FILE_FILE : k == 2 ? LHA_FILE_DIRECTORY : LHA_FILE_ERROR;
	__CPROVER_assert(vg_exists_calls < VG_CALLS, "call bound");
	vg_exists_n[vg_exists_calls] = vg_check_path(filename, 1);
	vg_exists_ret[vg_exists_calls] = r; vg_exists_at[vg_exists_calls] = ++vg_fs_seq;
	vg_exists_calls++;
	return r;
}
/* MUTATING.  ASSUME: lha_arch_mkdir creates (at most) the directory named by its argument (group archunix.lha_arch_mkdir). */
int lha_arch_mkdir(char *path, unsigned int unix_perms)
{
	int r = nondet_bool();
#ifdef VG_NO_MUTATION
	__CPROVER_assert(0, "C10: list / test / print / dry run never create a directory");
#endif
	__CPROVER_assert(vg_mkdir_calls < VG_CALLS, "call bound");
	vg_mkdir_n[vg_mkdir_calls] = vg_check_path(path, 0);
	vg_mkdir_ret[vg_mkdir_calls] = r; vg_mkdir_perm[vg_mkdir_calls] = unix_perms; vg_mkdir_at[vg_mkdir_calls] = ++vg_fs_seq;
	/* C10: mkdir only directly after the same path was found not to exist */
	__CPROVER_assert(vg_exists_calls >= 1 && vg_exists_at[vg_exists_calls - 1] + 1 == vg_fs_seq &&
	                 vg_exists_ret[vg_exists_calls - 1] == LHA_FILE_NONE && vg_exists_n[vg_exists_calls - 1] == vg_mkdir_n[vg_mkdir_calls],
	                 "C10: mkdir(p) only directly after lha_arch_exists(p) reported that nothing is there");
	__CPROVER_assert(unix_perms == 0755, "parent directories are created with mode 0755");
	vg_mkdir_calls++;
	return r;
}
static void progress_callback(unsigned int block, unsigned int num_blocks, void *data);
/* MUTATING.  ASSUME: lha_reader_extract creates / overwrites only the object named by `filename` (plus, at the
   end of the archive, metadata of directories and deferred symlinks it created earlier under names it was given
   the same way): unit reader.  It may invoke the callback. */
int lha_reader_extract(LHAReader *reader, char *filename, LHADecoderProgressCallback callback, void *callback_data)
{
#ifdef VG_NO_MUTATION
	__CPROVER_assert(0, "C10: list / test / print / dry run never extract");
#endif
	__CPROVER_assert(reader == vg_reader, "reader passed through");
	__CPROVER_assert(vg_extract_calls == 0, "one extract per entry");
	vg_extract_calls++; vg_extract_at = ++vg_fs_seq; vg_extract_cb = callback;
	vg_extract_arg_null = (filename == NULL);
	if (filename != NULL) {
		size_t n = vg_check_path(filename, 1);
		if (vg_ref != NULL) __CPROVER_assert(n == vg_ref_len, "C10: the library is told to extract to exactly the output path file_full_path specifies");
	}
	if (nondet_bool()) callback(nondet_uint(), nondet_uint(), callback_data);
	vg_extract_ret = nondet_bool();
	return vg_extract_ret;
}
/* ASSUME: lha_reader_check decodes to nowhere (CRC test), lha_reader_read decodes into the caller's buffer,
   lha_reader_current_is_fake is a query: none of them touches the file system (unit reader). */
int lha_reader_check(LHAReader *reader, LHADecoderProgressCallback callback, void *callback_data)
{
	__CPROVER_assert(reader == vg_reader, "reader passed through");
	if (nondet_bool()) callback(nondet_uint(), nondet_uint(), callback_data);
	return nondet_bool();
}
int lha_reader_current_is_fake(LHAReader *reader) { (void) reader; return nondet_bool(); }
#define VG_CHUNKS 2                     /* BOUND: at most this many non-empty data chunks per printed member */
unsigned vg_chunks;
size_t lha_reader_read(LHAReader *reader, void *buf, size_t buf_len)
{
	size_t n = nondet_size_t();
	(void) reader;
	__CPROVER_assert(__CPROVER_w_ok(buf, buf_len), "C08 lha_reader_read: destination writable");
	if (vg_chunks >= VG_CHUNKS) return 0;
	__CPROVER_assume(n <= buf_len);
	if (n > 0) vg_chunks++;
	return n;
}
/* ASSUME: lha_filter_next_file returns NULL or a decoded header (groups filter.*).  BOUND: at most VG_MEMBERS
   members per archive; the loop bodies carry no state from one member to the next except the result flag. */
#define VG_MEMBERS 2
unsigned vg_members;
LHAFileHeader *lha_filter_next_file(LHAFilter *filter)
{
	__CPROVER_assert(filter == &vg_filter, "filter passed through");
	if (vg_members >= VG_MEMBERS || nondet_bool()) return NULL;
	vg_members++; vg_chunks = 0;
	vg_any_header();
	return &vg_hdr;
}

#define malloc vg_malloc
#define strcat vg_strcat
#include "src/extract.c"
#undef malloc
#undef strcat
#undef strdup

static void vg_begin(void)
{
	vg_prints = 0; vg_line = 0; vg_col = 0; vg_getchars = 0;
	vg_exists_calls = 0; vg_mkdir_calls = 0; vg_extract_calls = 0; vg_fs_seq = 0; vg_members = 0; vg_chunks = 0; vg_ref = NULL;
	vg_any_options(); vg_any_header();
}
#define VG_LOWER(c) (((c) >= 'A' && (c) <= 'Z') ? (c) + 32 : (c))

/* ---- file_full_path: functional contract + C08 */
void h_file_full_path(void)
{
	char *r; size_t k;
	vg_begin(); vg_expected_path();
	r = file_full_path(&vg_hdr, &vg_options);
	__CPROVER_assert(r != NULL && r == vg_alloc_ptr, "file_full_path returns the block it allocated");
	for (k = 0; k <= vg_want_len; k++)
		__CPROVER_assert(r[k] == vg_want[k], "C10 file_full_path == [extract_path \"/\"] ++ path sans leading '/' (unless 'i') ++ filename sans leading '/', NUL-terminated");
	__CPROVER_assert(vg_want_len + 1 <= vg_alloc_size, "C08: the string with its NUL lies inside the size asked for");
	__CPROVER_assert(vg_options.extract_path == NULL ==> r[0] != '/', "C10: without an extraction directory the output path is never absolute");
	free(r);
	VG_CANARY("file_full_path");
}

/* ---- overwrite policy: a pure decision table over (policy, first character of the answer line) */
void h_confirm_file_overwrite(void)
{
	LHAOverwritePolicy p0; int r, f; unsigned j;
	char name[2] = "x";
	vg_begin();
	p0 = vg_options.overwrite_policy;
	r = confirm_file_overwrite(name, &vg_options);
	if (p0 == LHA_OVERWRITE_SKIP) __CPROVER_assert(r == 0 && vg_getchars == 0 && vg_options.overwrite_policy == p0, "overwrite policy SKIP: never overwrite, never ask");
	if (p0 == LHA_OVERWRITE_ALL)  __CPROVER_assert(r == 1 && vg_getchars == 0 && vg_options.overwrite_policy == p0, "overwrite policy ALL ('f', quiet modes): overwrite, never ask");
	if (p0 == LHA_OVERWRITE_PROMPT) {
		__CPROVER_assert(vg_line >= 1 && vg_line <= VG_ANSWERS && vg_col == 0, "PROMPT: whole answer lines are consumed");
		f = VG_LOWER(vg_first[vg_line - 1]);
		__CPROVER_assert(f == 'y' || f == 'n' || f == '\n' || f == 'a' || f == 's', "PROMPT: only y / n / empty / a / s end the dialogue");
		for (j = 0; j + 1 < vg_line; j++) __CPROVER_assert(!VG_DECISIVE(vg_first[j]), "PROMPT: any other answer asks again");
		__CPROVER_assert(r == ((f == 'y' || f == 'a') ? 1 : 0), "PROMPT: overwrite exactly on yes / all");
		__CPROVER_assert(vg_options.overwrite_policy == (f == 'a' ? LHA_OVERWRITE_ALL : f == 's' ? LHA_OVERWRITE_SKIP : LHA_OVERWRITE_PROMPT),
		                 "PROMPT: 'all' and 'skip' become the policy for the rest of the archive, yes / no do not");
	}
	VG_CANARY("confirm_file_overwrite");
}

/* ---- make_parent_directories: touches only ancestors of the path it is given */
char vg_ppath[VG_P + 1], vg_ppath0[VG_P + 1];
void h_make_parent_directories(void)
{
	unsigned j; int r; size_t k; _Bool other = 0;
	vg_begin();
	__CPROVER_havoc_object(vg_ppath); vg_ppath[VG_P] = 0;
	/* ASSUME (exclusion, see plan note): the path contains a character other than '/' (for "" or "///" the function
	   computes path - 1: undefined pointer arithmetic, benign on a flat address space; print unit, DESIGN.md section 7) */
	for (k = 0; vg_ppath[k] != 0; k++) if (vg_ppath[k] != '/') other = 1;
	__CPROVER_assume(other);
	for (k = 0; k <= VG_P; k++) vg_ppath0[k] = vg_ppath[k];
	vg_ref = vg_ppath0; vg_ref_len = strlen(vg_ppath0);
	r = make_parent_directories(vg_ppath);
	for (k = 0; k <= VG_P; k++) __CPROVER_assert(vg_ppath[k] == vg_ppath0[k], "the caller's path string is not modified");
	__CPROVER_assert(vg_extract_calls == 0, "make_parent_directories extracts nothing");
	for (j = 0; j < vg_exists_calls; j++) {
		__CPROVER_assert(vg_exists_n[j] < vg_ref_len && (j == 0 || vg_exists_n[j] > vg_exists_n[j - 1]),
		                 "C10: the ancestors are visited outermost first, the path itself is not touched");
	}
	for (j = 0; j < vg_mkdir_calls; j++)
		__CPROVER_assert(vg_mkdir_ret[j] != 0 || (r == 0 && j + 1 == vg_mkdir_calls), "a failed mkdir ends the walk with failure");
	VG_CANARY("make_parent_directories");
}

/* ---- extract_archived_file: what is handed to the library, and when nothing is */
void h_extract_archived_file(void)
{
	LHAOverwritePolicy p0; int r, f, is_symlink, is_dir, asked_exists, declined; unsigned j;
	vg_begin(); vg_expected_path();
	/* ASSUME (exclusion as in make_parent_directories): the output path contains a character other than '/' */
	{ size_t k; _Bool other = 0; for (k = 0; k < vg_want_len; k++) if (vg_want[k] != '/') other = 1; __CPROVER_assume(other); }
	vg_ref = vg_want; vg_ref_len = vg_want_len;
	p0 = vg_options.overwrite_policy;
	is_symlink = vg_hdr.symlink_target != NULL;
	is_dir = !is_symlink && vg_hdr.compress_method[0] == '-' && vg_hdr.compress_method[1] == 'l' && vg_hdr.compress_method[2] == 'h' &&
	         vg_hdr.compress_method[3] == 'd' && vg_hdr.compress_method[4] == '-';
	r = extract_archived_file(vg_reader, &vg_hdr, &vg_options);
	asked_exists = !is_dir && !is_symlink;
	if (asked_exists) {
		__CPROVER_assert(vg_exists_calls >= 1 && vg_exists_n[0] == vg_want_len, "the existence test is made on the output path itself");
	}
	f = (vg_line >= 1) ? VG_LOWER(vg_first[vg_line - 1]) : 0;
	declined = asked_exists && vg_exists_ret[0] != LHA_FILE_NONE &&
	           (p0 == LHA_OVERWRITE_SKIP || (p0 == LHA_OVERWRITE_PROMPT && (f == 'n' || f == '\n' || f == 's')));
	if (declined) {
		__CPROVER_assert(r == 1 && vg_mkdir_calls == 0 && vg_extract_calls == 0 && vg_exists_calls == 1,
		                 "C10 overwrite policy: an existing file the user (or policy) declines to overwrite is left alone - nothing is created at all");
	} else if (!vg_options.use_path && is_dir) {
		__CPROVER_assert(r == 1 && vg_mkdir_calls == 0 && vg_extract_calls == 0, "C10 option 'i': directory entries are ignored, nothing is created");
	} else {
		__CPROVER_assert(asked_exists && vg_exists_ret[0] != LHA_FILE_NONE ==> (p0 != LHA_OVERWRITE_SKIP && (p0 == LHA_OVERWRITE_ALL || f == 'y' || f == 'a')),
		                 "C10 overwrite policy: an existing file is only replaced under policy ALL or after the answer yes / all");
		if (vg_extract_calls == 1) {
			__CPROVER_assert(!vg_extract_arg_null, "C10: the library is given an explicit output path (checked against file_full_path's specification in the stand-in)");
			__CPROVER_assert(vg_extract_cb == progress_callback && r == vg_extract_ret, "extract result and callback passed through");
			for (j = 0; j < vg_mkdir_calls; j++) __CPROVER_assert(vg_mkdir_at[j] < vg_extract_at, "parent directories are made before the entry is extracted");
		} else {
			__CPROVER_assert(r == 0, "no extraction only if making the parent directories failed");
		}
	}
	VG_CANARY("extract_archived_file");
}
/* ---- no-mutation groups (compiled with -DVG_NO_MUTATION: the two mutating stand-ins assert(0)) */
void h_dry_run(void) { vg_begin(); (void) extract_archive_dry_run(&vg_filter, &vg_options); VG_CANARY("extract_archive_dry_run"); }
/* dry_run == 1: the only non-zero value src/main.c ever stores (option 'n') */
void h_extract_archive_n(void) { vg_begin(); vg_options.dry_run = 1; (void) extract_archive(&vg_filter, &vg_options); VG_CANARY("extract_archive with dry_run"); }
void h_print_archive_n(void) { vg_begin(); vg_options.dry_run = 1; (void) print_archive(&vg_filter, &vg_options); VG_CANARY("print_archive with dry_run"); }
void h_test_file_crc(void) { vg_begin(); (void) test_file_crc(&vg_filter, &vg_options); VG_CANARY("test_file_crc"); }
void h_print_archive(void) { vg_begin(); (void) print_archive(&vg_filter, &vg_options); VG_CANARY("print_archive"); }

/* Unit istream: lib/lha_input_stream.c under contract (C08, C13, C16, C20).

   Ghost source model.  The underlying source (FILE, pipe or caller callbacks) is an arbitrary,
   unbounded byte sequence; vg_cur counts the bytes it has handed out so far.  The array vg_src shows
   VG_SRC_MAX consecutive source bytes, namely those at the absolute positions vg_P .. vg_P+VG_SRC_MAX-1,
   where vg_P is an arbitrary-but-fixed (Skolem) absolute position:

        source byte at absolute position vg_P + t   ==   vg_src[t]        (t < VG_SRC_MAX)

   The code never sees absolute positions and vg_P is unconstrained, so every fact proved for the
   window is a fact for every position of every source; nothing depends on VG_SRC_MAX except that it
   holds the 13 bytes that one scan step of skip_sfx looks at (leadin[i .. i+13)).
   (An absolute Skolem position is used rather than a lead-in index j: an index is not stable when
   empty_leadin shifts the buffer, a source position is.)
   Logical position of the stream = vg_cur - leadin_len; STREAM_OK says the lead-in buffer replays the
   source bytes just before vg_cur:  leadin[j] == source byte (vg_cur - leadin_len + j)  for j < leadin_len. */
#include "vg_common.h"
#include <stdio.h>
#include <limits.h>
#include <errno.h>
#include "lib/public/lha_input_stream.h"

#define VG_SRC_MAX 13
#define VG_POS_MAX ((size_t) 1 << 62) /* no source ever delivers 2^62 bytes */

uint8_t vg_src[VG_SRC_MAX];
size_t vg_P;
size_t vg_cur;

/* ghost observers of skip_sfx (assigned only by woven ghost statements) */
size_t vg_S;          /* logical position at which the scan started */
int vg_hit_skip;      /* value of skip_files when the scan examined offset vg_P */
_Bool vg_mark;        /* a self-extractor marker has been seen */
size_t vg_mark_pos;   /* absolute position of the last marker seen */
size_t vg_L0;         /* lha_input_stream_read: logical position at which delivery into buf starts */

#define VG_GHOST_OK (vg_P <= VG_POS_MAX)

/* window coordinate of absolute position `from`: window byte t sits at index VG_REL(from)+t of a buffer
   whose byte 0 is source position `from` (unsigned wrap-around makes out-of-range cells huge) */
#define VG_REL(from) ((size_t) (vg_P - (from)))
#define VG_LPOS (vg_cur - vg_st.leadin_len)
#define VG_D    ((size_t) (vg_P - vg_cur + vg_st.leadin_len))
/* VG_D = position of the window start relative to the logical position (64-bit, wraps); only values
   -12..23 can put a window byte inside the 24-byte lead-in buffer, so the cells are indexed with the
   low byte VG_D8 when VG_NEAR holds (same predicate, cheaper arithmetic). */
#define VG_NEAR ((size_t) (VG_D + 12) < 36)
#define VG_D8   ((int) (signed char) (unsigned char) VG_D)
#define STREAM_OK \
	(vg_st.leadin_len <= LEADIN_BUFFER_LEN && vg_st.leadin_len <= vg_cur && vg_cur <= VG_POS_MAX && \
	 __CPROVER_forall { int vt_; (0 <= vt_ && vt_ < VG_SRC_MAX) ==> \
		((VG_NEAR && VG_D8 + vt_ >= 0 && VG_D8 + vt_ < (int) vg_st.leadin_len) ==> vg_st.leadin[VG_D8 + vt_] == vg_src[vt_]) })

/* buffer b holds the source bytes [from, from+n): b[p - from] == source byte p, stated for p = vg_P
   (vg_P arbitrary, hence for every p) */
#define VG_DELIVERED0(b, from, n) ((VG_REL(from) < (size_t) (n)) ==> (b)[VG_REL(from)] == vg_src[0])

/* Method signature at bytes 2..6 of a header (file format: "-lh?-", "-lz4-", "-lz5-", "-lzs-",
   "-pm?-" other than "-pms-"); m = the five method-id bytes. */
#define VG_IN3(c, x, y, z) ((c) == (x) || (c) == (y) || (c) == (z))
#define VG_METHOD_SIG(m) \
	((m)[0] == '-' && (m)[4] == '-' && \
	 (((m)[1] == 'l' && ((m)[2] == 'h' || ((m)[2] == 'z' && VG_IN3((m)[3], '4', '5', 's')))) || \
	  ((m)[1] == 'p' && (m)[2] == 'm' && (m)[3] != 's')))
#define VG_SIG(w) VG_METHOD_SIG((w) + 2)
/* self-extractor markers after which one decoy header is skipped */
#define VG_MARK(w) \
	(((w)[0] == 'L' && (w)[1] == 'H' && (w)[2] == 'A' && (w)[3] == '-' && (w)[4] == 'S' && (w)[5] == 'F' && (w)[6] == 'X') || \
	 ((w)[0] == 'L' && (w)[1] == 'h' && (w)[2] == 'A' && (w)[3] == 'S' && (w)[4] == 'F' && (w)[5] == 'X' && (w)[6] == ' ' && \
	  (w)[7] == 'V' && (w)[8] == '1' && (w)[9] == '.' && (w)[10] == '2' && (w)[11] == ','))

#define VG_HANDLE ((void *) &vg_handle_obj)
char vg_handle_obj;

#define VG_REP8(M, b)  M((b) + 0); M((b) + 1); M((b) + 2); M((b) + 3); M((b) + 4); M((b) + 5); M((b) + 6); M((b) + 7)
#define VG_REP24(M)    VG_REP8(M, 0); VG_REP8(M, 8); VG_REP8(M, 16)
#define VG_REP32(M)    VG_REP24(M); VG_REP8(M, 24)

/* Byte delivery shared by the two source models (callback source, FILE source): the source hands out
   its next r bytes (1 <= r <= len) into b[0..r).
   Model: for len <= 32 exact (byte by byte).  For len > 32 an over-approximation: the whole object
   holding b is made arbitrary, except that the window byte vg_src[0] is delivered / preserved (so the model
   allows strictly more behaviours than a real source; frame facts inside large buffers are not derivable). */
#define VG_RD_WR(k) \
	if ((size_t) (k) < r) b[k] = (vg_near && (k) - vg_d8 >= 0 && (k) - vg_d8 < VG_SRC_MAX) ? vg_src[(k) - vg_d8] : nondet_uchar()
static void vg_deliver(uint8_t *b, size_t len, size_t r)
{
	size_t vg_dd = vg_P - vg_cur;       /* window byte t goes to b[vg_dd + t] */
	_Bool vg_near = (size_t) (vg_dd + 12) < 44;   /* only -12..31 can hit b[0..32) */
	int vg_d8 = (int) (signed char) (unsigned char) vg_dd;
	__CPROVER_assume(vg_cur + r <= VG_POS_MAX);
#ifndef VG_DELIVER_APPROX
	if (len <= 32) {
		VG_REP32(VG_RD_WR);
	} else
#endif
	{
		/* cell of vg_src[0] relative to b (may lie before b: bytes replayed earlier into the same buffer) */
		uint8_t *base = b - VG_OFF(b);
		size_t osz = __CPROVER_OBJECT_SIZE(b);
		size_t o = VG_OFF(b) + vg_dd;
		uint8_t keep = 0;
		if (o < osz) keep = base[o];
		__CPROVER_havoc_object(b);
		if (o < osz) base[o] = (vg_dd < r) ? vg_src[0] : keep;
	}
	vg_cur += r;
}

/* ASSUME: source read callback (LHAInputStreamType.read): returns -1 (error, nothing consumed),
   0 (end of input, nothing consumed) or r in 1..len, in which case exactly the next r source bytes are
   stored in buf[0..r) and consumed; nothing else is touched; total bytes ever delivered < 2^62. */
int vg_src_read(void *handle, void *buf, size_t len)
{
	int r = nondet_int();
	__CPROVER_assert(handle == VG_HANDLE, "source read is passed the stream's handle");
	__CPROVER_assert(__CPROVER_w_ok(buf, len), "source read is given a writable buffer of len bytes");
	__CPROVER_assume(r >= -1 && (r <= 0 || (size_t) r <= len));
	if (r > 0) {
		vg_deliver((uint8_t *) buf, len, (size_t) r);
	}
	return r;
}

/* ASSUME: source skip callback (LHAInputStreamType.skip): non-zero = exactly `bytes` source bytes were
   consumed; zero = failure. */
int vg_src_skip(void *handle, size_t bytes)
{
	__CPROVER_assert(handle == VG_HANDLE, "source skip is passed the stream's handle");
	if (nondet_bool()) {
		__CPROVER_assume(bytes <= VG_POS_MAX && vg_cur + bytes <= VG_POS_MAX);
		vg_cur += bytes;
		return 1;
	}
	return 0;
}

/* ASSUME: source close callback releases the handle; counted in vg_closed. */
unsigned vg_closed;
void vg_src_close(void *handle)
{
	__CPROVER_assert(handle == VG_HANDLE, "source close is passed the stream's handle");
	vg_closed++;
}

/* stream types the harness uses: with and without the optional callbacks */
const LHAInputStreamType vg_type_cb = { vg_src_read, vg_src_skip, vg_src_close };
const LHAInputStreamType vg_type_rd = { vg_src_read, NULL, NULL };
/* Which type the stream under test has: vg_tk = 1 callbacks with skip+close, 2 callbacks with read only,
   3 owned FILE, 4 unowned FILE; vg_tp / vg_hp = the matching type object and handle (set together in
   vg_havoc).  Contracts say `type == vg_tp`, and vg_havoc also ASSIGNS vg_st.type = vg_tp: CBMC resolves
   `stream->type->read` through the pointer's value set, which an assumed equality with a non-constant
   does not refine (measured: spurious "pointer NULL in stream->type->read").
   VG_TK_LO..VG_TK_HI is the range of kinds a group covers. */
int vg_tk;
const LHAInputStreamType *vg_tp;
void *vg_hp;
#ifndef VG_TK_LO
#define VG_TK_LO 1
#endif
#ifndef VG_TK_HI
#define VG_TK_HI 2
#endif

/* ---- C library FILE model (the FILE source is the same ghost source vg_cur / vg_src) ---- */
/* ASSUME: errno is an int lvalue that library functions may set on failure. */
int vg_errno;
#undef errno
#define errno vg_errno
FILE vg_file_obj;
#define VG_FILE (&vg_file_obj)
unsigned vg_open;     /* FILE handles currently open (fopen'ed and not yet fclose'd) */
_Bool vg_feof;        /* end-of-file indicator of VG_FILE */

/* ASSUME: fread(buf, 1, n, fh) returns m <= n, stores the next m bytes of the file in buf[0..m) and
   consumes them; m < n happens only at end of file (indicator set) or on error (indicator not changed);
   n == 0 returns 0 and changes nothing. */
size_t vg_fread(void *buf, size_t size, size_t n, FILE *fh)
{
	size_t m = nondet_size_t();
	__CPROVER_assert(fh == VG_FILE && size == 1, "fread on the stream's FILE, element size 1");
	__CPROVER_assert(__CPROVER_w_ok(buf, n), "fread is given a writable buffer of n bytes");
	__CPROVER_assume(m <= n);
	if (m > 0) {
		vg_deliver((uint8_t *) buf, n, m);
	}
	if (m < n && nondet_bool()) {
		vg_feof = 1;
	}
	return m;
}
/* ASSUME: feof returns the end-of-file indicator. */
int vg_feof_fn(FILE *fh)
{
	__CPROVER_assert(fh == VG_FILE, "feof on the stream's FILE");
	return vg_feof;
}
/* ASSUME: ftell returns the position (>= 0) or -1 for an unseekable stream; no side effect. */
long vg_ftell(FILE *fh)
{
	long r = nondet_int();
	__CPROVER_assert(fh == VG_FILE, "ftell on the stream's FILE");
	__CPROVER_assume(r >= -1);
	return r;
}
/* ASSUME: fseek(fh, off, SEEK_CUR) either moves the position by exactly off and
   returns 0 (also beyond the end of a regular file), or returns -1 with errno set and the position
   unchanged (lib/lha_input_stream.c guards the Windows partial-seek case by calling ftell first). */
int vg_fseek(FILE *fh, long off, int whence)
{
	__CPROVER_assert(fh == VG_FILE && whence == SEEK_CUR, "fseek relative to the current position on the stream's FILE");
	if (nondet_bool()) {
		/* position stays within [0, 2^62] (a negative off moves backwards) */
		__CPROVER_assume(off >= 0 ? ((size_t) off <= VG_POS_MAX && vg_cur + (size_t) off <= VG_POS_MAX) : ((size_t) -(off + 1) < vg_cur));
		vg_cur += (size_t) off;
		vg_feof = 0;
		return 0;
	}
	errno = nondet_int();
	return -1;
}
/* ASSUME: fclose releases the handle (exactly once per fopen'ed handle). */
int vg_fclose(FILE *fh)
{
	__CPROVER_assert(fh == VG_FILE && vg_open > 0, "fclose on an open handle obtained from fopen");
	vg_open--;
	return 0;
}
/* ASSUME: fopen returns NULL or a new open handle. */
FILE *vg_fopen(const char *name, const char *mode)
{
	__CPROVER_assert(mode[0] == 'r' && mode[1] == 'b' && mode[2] == 0, "opened for binary reading");
	if (nondet_bool()) return NULL;
	__CPROVER_assume(vg_open < 1000);
	vg_open++;
	return VG_FILE;
}
#define fread vg_fread
#define feof vg_feof_fn
#define ftell vg_ftell
#define fseek vg_fseek
#define fclose vg_fclose
#define fopen vg_fopen
/* ASSUME: lha_arch_set_binary (lib/lha_arch_unix.c / _win32.c) only changes the text/binary mode of the handle. */
void lha_arch_set_binary(FILE *handle) { (void) handle; }

/* ASSUME: memmove/memcpy copy n bytes (memmove: as if through a temporary).  Exact byte-by-byte model for
   n <= 24 = LEADIN_BUFFER_LEN; n <= 24 is a proof obligation at every call in this file. */
#define VG_MM_LD(k) if ((size_t) (k) < n) t[k] = s[k]
#define VG_MM_ST(k) if ((size_t) (k) < n) d[k] = t[k]
void *vg_memmove(void *dst, const void *src, size_t n)
{
	uint8_t t[24];
	uint8_t *d = (uint8_t *) dst;
	const uint8_t *s = (const uint8_t *) src;
	__CPROVER_assert(n <= 24, "block move of at most LEADIN_BUFFER_LEN bytes");
	__CPROVER_assert(__CPROVER_r_ok(src, n), "memmove/memcpy source readable");
	__CPROVER_assert(__CPROVER_w_ok(dst, n), "memmove/memcpy destination writable");
	VG_REP24(VG_MM_LD);
	VG_REP24(VG_MM_ST);
	return dst;
}
#define memmove vg_memmove
#define memcpy vg_memmove

/* ASSUME: memcmp(a, b, n) is 0 iff the first n bytes are equal, else the sign of the first difference;
   strlen(s) is the index of the first NUL.  Loop-free models (a library function with a loop cannot be
   called inside a loop that carries a contract); n <= 12 and length <= 15 are proof obligations. */
#define VG_MC(k) if (r == 0 && (size_t) (k) < n && pa[k] != pb[k]) r = pa[k] < pb[k] ? -1 : 1
int vg_memcmp(const void *a, const void *b, size_t n)
{
	const uint8_t *pa = (const uint8_t *) a, *pb = (const uint8_t *) b;
	int r = 0;
	__CPROVER_assert(n <= 12, "memcmp of at most 12 bytes");
	__CPROVER_assert(__CPROVER_r_ok(a, n) && __CPROVER_r_ok(b, n), "memcmp operands readable");
	VG_MC(0); VG_MC(1); VG_MC(2); VG_MC(3); VG_MC(4); VG_MC(5); VG_MC(6); VG_MC(7); VG_MC(8); VG_MC(9); VG_MC(10); VG_MC(11);
	return r;
}
size_t vg_strlen(const char *s)
{
	size_t n = 16;
#define VG_SL(k) if (n == 16 && s[k] == 0) n = (k)
	VG_SL(0); VG_SL(1); VG_SL(2); VG_SL(3); VG_SL(4); VG_SL(5); VG_SL(6); VG_SL(7);
	VG_SL(8); VG_SL(9); VG_SL(10); VG_SL(11); VG_SL(12); VG_SL(13); VG_SL(14); VG_SL(15);
	__CPROVER_assert(n < 16, "strlen of a string of at most 15 characters");
	return n;
}
#define memcmp vg_memcmp
#define strlen vg_strlen

/* the two FILE stream types are defined further down in the file; contracts above them name them */
static const LHAInputStreamType file_source_owned;
static const LHAInputStreamType file_source_unowned;
#include "lib/lha_input_stream.c"

static void vg_havoc(void)
{
	__CPROVER_havoc_object(&vg_st);
	__CPROVER_havoc_object(vg_src);
	vg_cur = nondet_size_t();
	vg_P = nondet_size_t();
	vg_closed = nondet_uint();
	vg_open = nondet_uint();
	vg_feof = nondet_bool();
	vg_tk = nondet_int();
	__CPROVER_assume(vg_tk >= VG_TK_LO && vg_tk <= VG_TK_HI);
	vg_tp = vg_tk == 1 ? &vg_type_cb : vg_tk == 2 ? &vg_type_rd : vg_tk == 3 ? &file_source_owned : &file_source_unowned;
	vg_hp = vg_tk <= 2 ? VG_HANDLE : (void *) VG_FILE;
	/* assigned (not only required): CBMC resolves `stream->type->read` through the pointer's value set */
	vg_st.type = vg_tp;
	vg_st.handle = vg_hp;
	vg_S = nondet_size_t(); vg_L0 = nondet_size_t(); vg_mark_pos = nondet_size_t();
	vg_hit_skip = nondet_int(); vg_mark = nondet_bool();
}

void h_file_header_match(void) { uint8_t *b; vg_havoc(); file_header_match(b); VG_CANARY("file_header_match"); }
void h_skip_sfx(void) { LHAInputStream *s; vg_havoc(); skip_sfx(s); VG_CANARY("skip_sfx"); }
void h_empty_leadin(void) { LHAInputStream *s; size_t n; vg_havoc(); empty_leadin(s, n); VG_CANARY("empty_leadin"); }
void h_read(void) { LHAInputStream *s; void *b; size_t n; vg_havoc(); lha_input_stream_read(s, b, n); VG_CANARY("lha_input_stream_read"); }
void h_skip(void) { LHAInputStream *s; size_t n; vg_havoc(); lha_input_stream_skip(s, n); VG_CANARY("lha_input_stream_skip"); }
void h_new(void) { const LHAInputStreamType *t; void *h; vg_havoc(); lha_input_stream_new(t, h); VG_CANARY("lha_input_stream_new"); }
void h_free(void) { LHAInputStream *s; vg_havoc(); lha_input_stream_free(s); VG_CANARY("lha_input_stream_free"); }
void h_file_source_read(void) { void *h; void *b; size_t n; vg_havoc(); file_source_read(h, b, n); VG_CANARY("file_source_read"); }
void h_file_source_skip_fallback(void) { FILE *h; size_t n; vg_havoc(); file_source_skip_fallback(h, n); VG_CANARY("file_source_skip_fallback"); }
void h_file_source_skip(void) { void *h; size_t n; vg_havoc(); file_source_skip(h, n); VG_CANARY("file_source_skip"); }
void h_file_source_close(void) { void *h; vg_havoc(); file_source_close(h); VG_CANARY("file_source_close"); }
void h_from(void) { char *f; vg_havoc(); lha_input_stream_from(f); VG_CANARY("lha_input_stream_from"); }
void h_from_FILE(void) { FILE *f; vg_havoc(); lha_input_stream_from_FILE(f); VG_CANARY("lha_input_stream_from_FILE"); }

/* The two FILE stream types consist of the functions under contract; the unowned one never closes. */
void h_types(void)
{
	__CPROVER_assert(file_source_owned.read == file_source_read && file_source_owned.skip == file_source_skip &&
	                 file_source_owned.close == file_source_close, "owned FILE type uses the functions under contract");
	__CPROVER_assert(file_source_unowned.read == file_source_read && file_source_unowned.skip == file_source_skip &&
	                 file_source_unowned.close == NULL, "unowned FILE type: same read/skip, no close");
	__CPROVER_assert(LEADIN_BUFFER_LEN == 24 && sizeof(vg_st.leadin) == 24 && VG_SRC_MAX == 13, "harness constants equal the code's");
	VG_CANARY("types");
}

/* ---- bounded whole-run check of skip_sfx (real code, loops unwound): a source of n <= VG_BN arbitrary bytes,
   delivered in arbitrary chunkings, against the scan the format documents. ---- */
#ifndef VG_BN
#define VG_BN 56
#endif
uint8_t vg_bsrc[VG_BN + 13];    /* 13 bytes of padding so that window predicates never index out of bounds */
size_t vg_bn, vg_bcur, vg_bchunk;
#ifndef VG_BCHUNK
#define VG_BCHUNK 0
#endif
/* ASSUME (bounded group): the source hands out its n bytes in arbitrary non-empty chunks, then reports end of input. */
#define VG_B_WR(k) if ((size_t) (k) < (size_t) r) b[k] = vg_bsrc[vg_bcur + (k)]
int vg_bsrc_read(void *handle, void *buf, size_t len)
{
	uint8_t *b = (uint8_t *) buf;
	int r = nondet_int();
	__CPROVER_assert(len <= 24 && __CPROVER_w_ok(buf, len), "bounded source: skip_sfx asks for at most 24 bytes into a valid buffer");
	if (vg_bcur >= vg_bn || len == 0) return 0;
	__CPROVER_assume(r >= 1 && (size_t) r <= len && (size_t) r <= vg_bn - vg_bcur);
#if VG_BCHUNK == 1
	/* greedy source: always as much as asked for and available */
	__CPROVER_assume((size_t) r == len || (size_t) r == vg_bn - vg_bcur);
#elif VG_BCHUNK == 3
	/* source that delivers chunks of the constant size VG_BC (less only when less is asked for or left) */
	__CPROVER_assume((size_t) r == VG_BC || ((size_t) r < VG_BC && ((size_t) r == len || (size_t) r == vg_bn - vg_bcur)));
#elif VG_BCHUNK == 2
	/* source with a fixed (arbitrary) chunk size vg_bchunk */
	__CPROVER_assume((size_t) r == vg_bchunk || ((size_t) r < vg_bchunk && ((size_t) r == len || (size_t) r == vg_bn - vg_bcur)));
#endif
	VG_REP24(VG_B_WR);
	vg_bcur += (size_t) r;
	return r;
}
const LHAInputStreamType vg_type_b = { vg_bsrc_read, NULL, NULL };

void h_skip_sfx_bounded(void)
{
	size_t o, j, first_sig = VG_BN, second_sig = VG_BN, ref_pos = 0;
	int ref_found = 0, skip = 0, ret, mark_before_first = 0, mark_between = 0;
	__CPROVER_havoc_object(vg_bsrc);
	__CPROVER_havoc_object(&vg_st);
	vg_bn = nondet_size_t();
#ifdef VG_BN_FIXED
	vg_bn = VG_BN;      /* source of exactly VG_BN bytes */
#endif
	__CPROVER_assume(vg_bn <= VG_BN);
	vg_bcur = 0;
	vg_bchunk = nondet_size_t();
	__CPROVER_assume(vg_bchunk >= 1 && vg_bchunk <= 24);
	vg_st.type = &vg_type_b; vg_st.handle = VG_HANDLE; vg_st.state = LHA_INPUT_STREAM_INIT; vg_st.leadin_len = 0;

	ret = skip_sfx(&vg_st);

	/* the documented scan: offsets in order, each needs 13 bytes of look-ahead; a marker arms the skipping of one header */
	for (o = 0; o < VG_BN; o++) {
		if (o + 13 <= vg_bn && !ref_found) {
			if (VG_SIG(vg_bsrc + o)) {
				if (skip == 0) { ref_found = 1; ref_pos = o; } else { skip = 0; }
			}
			if (!ref_found && VG_MARK(vg_bsrc + o)) skip = 1;
		}
	}
	__CPROVER_assert(ret == ref_found, "bounded C16: skip_sfx finds a header iff the documented scan does");
	if (ref_found) {
		__CPROVER_assert(vg_bcur - vg_st.leadin_len == ref_pos && vg_st.leadin_len >= 13 && vg_st.leadin_len <= 24,
		                 "bounded C16: logical position after skip_sfx is the offset the documented scan finds");
		for (j = 0; j < 24; j++) {
			if (j < vg_st.leadin_len)
				__CPROVER_assert(vg_st.leadin[j] == vg_bsrc[ref_pos + j], "bounded C16: lead-in buffer replays the source from the header on");
		}
	}
	/* the two cases of the property statement, stated directly */
	for (o = 0; o < VG_BN; o++) {
		if (o + 13 <= vg_bn) {
			if (VG_SIG(vg_bsrc + o)) {
				if (first_sig == VG_BN) first_sig = o; else if (second_sig == VG_BN) second_sig = o;
			}
			if (VG_MARK(vg_bsrc + o)) {
				if (first_sig == VG_BN) mark_before_first = 1;
				else if (second_sig == VG_BN) mark_between = 1;   /* marker at or after the first signature, before the second */
			}
		}
	}
	if (first_sig < VG_BN && !mark_before_first)
		__CPROVER_assert(ret == 1 && vg_bcur - vg_st.leadin_len == first_sig,
		                 "bounded C16: a prefix without signature and marker is skipped; the first header is found");
	if (second_sig < VG_BN && mark_before_first && !mark_between)
		__CPROVER_assert(ret == 1 && vg_bcur - vg_st.leadin_len == second_sig,
		                 "bounded C16: after a marker exactly one decoy header is skipped");
	VG_CANARY("skip_sfx_bounded");
}

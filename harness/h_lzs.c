/* Unit: lib/lzs_decoder.c (-lzs-, 2 KiB ring, absolute copy positions). */
#define VG_CB_MAX 4
#ifdef VG_FUNC
#define VG_CB vg_cbf
#endif
#include "vg_decoder.h"
#ifdef VG_FUNC
#include "lib/lha_decoder.h"
#include "vg_bits.h"
#endif
#include "vg_ring.h"
#define VG_BSR BSR_OK(&vg_dec.bit_stream_reader)

/* -lzs- command semantics from the format (property C03): CUR0 = bit cursor at entry.
   flag = 1 bit; literal: 8 bits; copy: 11-bit absolute ring position, 4-bit length stored minus 2. */
#define LZS_CUR0   (8 * __CPROVER_old(vg_in_pos) - __CPROVER_old(vg_dec.bit_stream_reader.bits))
#define LZS_FLAG   VG_SB(LZS_CUR0, 1u)
#define LZS_LIT    VG_SB(LZS_CUR0 + 1, 8u)
#define LZS_POS    VG_SB(LZS_CUR0 + 1, 11u)
#define LZS_LEN    (VG_SB(LZS_CUR0 + 12, 4u) + 2u)
#define LZS_CMD_POST_COUNT(r)     ((r) == 0 || (LZS_FLAG == 1 ? (r) == 1 : (r) == LZS_LEN))
#define LZS_CMD_POST_LITERAL(r)   (((r) != 0 && LZS_FLAG == 1) ==> (vg_out[0] == LZS_LIT && VG_CUR(&vg_dec.bit_stream_reader) == LZS_CUR0 + 9 && \
                                   vg_dec.ringbuf_pos == (VG_P0 + 1) % RING_BUFFER_SIZE && \
                                   vg_dec.ringbuf[vg_Y] == (vg_Y == VG_P0 ? (uint8_t) LZS_LIT : VG_R0(vg_Y))))
#define LZS_CMD_POST_COPY_BYTE(r) (((r) != 0 && LZS_FLAG == 0) ==> (LZS_BLK_POST_BYTE_(LZS_POS, LZS_LEN, 0, VG_P0) && \
                                   VG_CUR(&vg_dec.bit_stream_reader) == LZS_CUR0 + 16 && vg_dec.ringbuf_pos == (VG_P0 + LZS_LEN) % RING_BUFFER_SIZE))
#define LZS_CMD_POST_COPY_RING(r) (((r) != 0 && LZS_FLAG == 0) ==> LZS_BLK_POST_RING_(LZS_LEN, 0, VG_P0))
#define LZS_CMD_POST_NONE(r)      ((r) == 0 ==> (vg_dec.ringbuf[vg_Y] == VG_R0(vg_Y) && vg_dec.ringbuf_pos == VG_P0))

/* snapshot scalars for harness-mode groups (declared before the include: contract text mentions them) */
static size_t vg_p0, vg_l0;
static unsigned vg_n0;

#include "lib/lzs_decoder.c"


static void vg_havoc(void)
{
#ifdef VG_FUNC
	__CPROVER_havoc_object(vg_in);
	vg_in_pos = nondet_size_t();
	vg_eof = 0;
#endif
	__CPROVER_havoc_object(&vg_dec);
	__CPROVER_havoc_object(vg_out);
	__CPROVER_havoc_object(vg_log);
	vg_n = nondet_uint();
	__CPROVER_assume(vg_n < VG_LOG_MAX);
	vg_K = nondet_size_t(); vg_Y = nondet_size_t(); vg_E = nondet_size_t();
	/* Skolem indices range over the valid cells of their arrays */
	__CPROVER_assume(vg_K < OUTPUT_BUFFER_SIZE && vg_Y < RING_BUFFER_SIZE && vg_E < OUTPUT_BUFFER_SIZE);
}
static void vg_snapshot(size_t l)
{
	vg_dec0 = vg_dec;
	__CPROVER_array_copy(vg_out0.b, vg_out);
	vg_p0 = vg_dec.ringbuf_pos; vg_l0 = l; vg_n0 = vg_n;
}

void h_peek_bits(void) { BitStreamReader *r; unsigned n; peek_bits(r, n); VG_CANARY("peek_bits"); }
void h_read_bits(void) { BitStreamReader *r; unsigned n; read_bits(r, n); VG_CANARY("read_bits"); }
void h_read_bit(void) { BitStreamReader *r; read_bit(r); VG_CANARY("read_bit"); }
void h_init(void) { void *d; LHADecoderCallback cb; void *cbd; vg_havoc(); lha_lzs_init(d, cb, cbd); VG_CANARY("lha_lzs_init"); }
void h_output_byte(void) { LHALZSDecoder *d; uint8_t *b; size_t *bl; uint8_t v; vg_havoc(); output_byte(d, b, bl, v); VG_CANARY("output_byte"); }
void h_output_block(void) { LHALZSDecoder *d; uint8_t *b; size_t *bl; unsigned s, l; vg_havoc(); output_block(d, b, bl, s, l); VG_CANARY("output_block"); }
void h_read(void) { void *d; uint8_t *b; vg_havoc(); lha_lzs_read(d, b); VG_CANARY("lha_lzs_read"); }

#ifdef VG_HARNESS_MODE
/* Functional clauses of output_block's contract, checked around the real call (loop contract applied by
   goto-instrument --apply-loop-contracts; output_byte inlined).  Local names mirror the parameter names so
   that the LZS_BLK_* macro text is literally the text of the function contract. */
void h_output_block_func(void)
{
	LHALZSDecoder *decoder = &vg_dec;
	uint8_t *buf = vg_out;
	size_t bl = nondet_size_t();
	size_t *buf_len = &bl;
	unsigned start = nondet_uint(), len = nondet_uint();
	vg_havoc();
	__CPROVER_assume(LZS_BLK_PRE);
	vg_snapshot(bl);
	output_block(decoder, buf, buf_len, start, len);
	__CPROVER_assert(LZS_BLK_POST_LEN, "output_block: output length advanced by len");
	__CPROVER_assert(LZS_BLK_POST_POS, "output_block: ring position advanced by len mod S");
	__CPROVER_assert(LZS_BLK_POST_BYTE, "output_block: byte K is LZ77 copy from absolute position start+K (overlap aware)");
	__CPROVER_assert(LZS_BLK_POST_RING, "output_block: ring = old ring overwritten by the output at the old position");
	__CPROVER_assert(LZS_BLK_POST_EARLIER, "output_block: earlier output bytes unchanged");
	__CPROVER_assert(vg_dec.bit_stream_reader.bits == vg_dec0.bit_stream_reader.bits &&
	                 vg_dec.bit_stream_reader.bit_buffer == vg_dec0.bit_stream_reader.bit_buffer &&
	                 vg_dec.bit_stream_reader.callback == vg_dec0.bit_stream_reader.callback &&
	                 vg_dec.bit_stream_reader.callback_data == vg_dec0.bit_stream_reader.callback_data,
	                 "output_block: bit reader state untouched (frame)");
	VG_CANARY("output_block_func");
}
#endif

void h_dtype(void)
{
	__CPROVER_assert(lha_lzs_decoder.init == lha_lzs_init && lha_lzs_decoder.read == lha_lzs_read && lha_lzs_decoder.free == NULL,
	                 "decoder type uses the functions under contract");
	__CPROVER_assert(lha_lzs_decoder.extra_size == sizeof(LHALZSDecoder), "extra_size is the state struct");
	__CPROVER_assert(lha_lzs_decoder.max_read == OUTPUT_BUFFER_SIZE && OUTPUT_BUFFER_SIZE == 17, "max_read is the largest copy (15 + 2)");
	__CPROVER_assert(lha_lzs_decoder.block_size > 0, "block_size positive");
	__CPROVER_assert(RING_BUFFER_SIZE == 2048 && START_OFFSET == 17 && THRESHOLD == 2, "format constants of the property statement");
	VG_CANARY("dtype");
}

/* Vocabulary for the lha_file_header.c contracts (unit filehdr). */
#ifndef VG_FILEHDR_H
#define VG_FILEHDR_H

/* ================================================================= strings (C11, C05) ==========
   Padded-string model: every heap string (path, filename, symlink_target, temporaries) lives in a block
   of exactly VG_PB bytes whose bytes beyond the requested size are zero padding.  Real blocks are
   strlen+1 (or a little more) bytes; the padding does not exist in reality, so contracts in this model
   say nothing about accesses between the requested size and VG_PB (those are covered by the exact
   groups filehdr.exact.*, which run the same functions on CBMC's own malloc with exact sizes). */
#ifndef VG_PB
#define VG_PB 300
#endif
char vg_path[VG_PB];   /* arena of the legacy collapse_path group */
size_t vg_L;           /* ghost: index of a NUL in the input string of collapse_path */
size_t vg_wend;        /* ghost out: strlen of the result of collapse_path */
size_t vg_flen;        /* ghost: strlen(header->filename) */
size_t vg_plen;        /* ghost: strlen(header->path) */
size_t vg_tlen;        /* ghost: strlen(header->symlink_target) */
size_t vg_slen;        /* ghost out of the strlen/strchr/strrchr stubs: strlen of their argument */
size_t vg_dlen;        /* ghost out of the strdup stub: strlen of the copy */
size_t vg_msz;         /* ghost out of the malloc stub: requested size of the latest block */

/* the block S (VG_PB bytes) holds a C string */
#define VG_STR(S) ((S)[VG_PB - 1] == '\0')
/* Skolem index: an arbitrary position in a string block; the harness leaves it unconstrained (< VG_PB) and
   nothing ever assigns it, so a contract clause about index vg_K is the clause for every index. */
size_t vg_K;
/* N is strlen(S): terminator at N, no terminator at the (arbitrary) earlier index vg_K */
#define VG_IS_LEN(S, N) \
	((N) < VG_PB && (S)[N] == '\0' && (vg_K < (N) ==> (S)[vg_K] != '\0'))
/* S is a C string of length N without '/' (C11: file names): same, and no '/' at the arbitrary index vg_K */
#define VG_NAME_OK(S, N) \
	((N) < VG_PB && (S)[N] == '\0' && (vg_K < (N) ==> ((S)[vg_K] != '\0' && (S)[vg_K] != '/')))

/* tolower() of the C locale on a char (the function lower-cases with tolower((unsigned char) c)) */
#define VG_TOLOWER(c) ((char) (((c) >= 'A' && (c) <= 'Z') ? (c) + ('a' - 'A') : (c)))

/* S[k..] starts a component that is empty, "." or ".." and is terminated by '/' */
#define VG_BAD_AT(S, k) \
	((S)[k] == '/' || \
	 ((k) + 1 < VG_PB && (S)[k] == '.' && (S)[(k) + 1] == '/') || \
	 ((k) + 2 < VG_PB && (S)[k] == '.' && (S)[(k) + 1] == '.' && (S)[(k) + 2] == '/'))
/* offset of the first component: one optional leading '/' is skipped */
#define VG_F(S) ((size_t)((S)[0] == '/' ? 1 : 0))
/* every component start k in [from, to) of S is not BAD */
#define VG_CLEAN_RANGE(S, from, to) \
	(__CPROVER_forall { size_t vk_; (vk_ < VG_PB) ==> \
		((vk_ >= (from) && vk_ < (to) && (vk_ == (from) || (S)[vk_ - 1] == '/')) ==> !VG_BAD_AT(S, vk_)) })
#define VG_NO_NUL_BEFORE(S, len) \
	(__CPROVER_forall { size_t vn_; (vn_ < VG_PB) ==> (vn_ < (len) ==> (S)[vn_] != '\0') })
#define VG_NO_SLASH_RANGE(S, from, to) \
	(__CPROVER_forall { size_t vs_; (vs_ < VG_PB) ==> ((vs_ >= (from) && vs_ < (to)) ==> (S)[vs_] != '/') })
/* C11 for a path S of length N: NUL-terminated inside the block and no '/'-terminated component is
   empty, "." or ".." (apart from one optional leading '/') */
#define VG_PATH_OK(S, N) \
	((N) < VG_PB && (S)[N] == '\0' && VG_NO_NUL_BEFORE(S, N) && VG_CLEAN_RANGE(S, VG_F(S), N))

#include "lha_file_header.h"
/* ================================================================= the header block (C08, C12, C13) ==
   A header is ONE heap block: struct LHAFileHeader immediately followed by the raw header bytes;
   raw_data == (uint8_t *)(header + 1).  extend_raw_data reallocs it (it may move: functions take
   LHAFileHeader **).
   Model: the block is a heap object of the CONSTANT physical size VG_BLK_SIZE = sizeof(LHAFileHeader) +
   VG_RAW_MAX; ghost vg_cap (<= VG_RAW_MAX) is the number of raw bytes the real block has (maintained by woven
   ghost assignments where the code sizes the block); raw_data_len == vg_cap except after a failed read.
   Physical bounds are CBMC's pointer checks; the LOGICAL bounds (no access at or beyond raw_data_len / vg_cap)
   are explicit obligations: VG_CHK_RAW ghost assertions at the direct RAW_DATA uses and VG_IN_RAW assertions in
   the stubs that receive pointers into the block (lha_decode_uint16/32, lha_ext_header_decode, lha_crc16_buf,
   lha_input_stream_read).  The realloc stub asserts the C13 growth cap for every request and then only
   follows requests that fit VG_BLK_SIZE (documented bound of the block-level groups). */
#ifndef VG_RAW_MAX
#define VG_RAW_MAX 320
#endif
struct vg_blk_t { LHAFileHeader h; uint8_t raw[VG_RAW_MAX]; };
#define VG_BLK_SIZE (sizeof(LHAFileHeader) + VG_RAW_MAX)
size_t vg_cap;
LHAFileHeader *vg_blk;    /* ghost: the current header block (base pointer), for the stream stub */
#define VG_GROW_MAX (1024u * 1024u)           /* == LEVEL_3_MAX_HEADER_LEN, checked in h_consts */
#define VG_RAW(hp) ((uint8_t *) ((hp) + 1))
/* p points into a header block (no other object of the model has this size) */
#define VG_IN_BLOCK(p) (__CPROVER_OBJECT_SIZE(p) == VG_BLK_SIZE)
/* [p, p+n) lies inside the raw bytes the real block has */
#define VG_IN_RAW(p, n) \
	(!VG_IN_BLOCK(p) || (VG_OFF(p) >= sizeof(LHAFileHeader) && (size_t) (n) <= vg_cap && \
	                     VG_OFF(p) - sizeof(LHAFileHeader) <= vg_cap - (size_t) (n)))
/* ghost obligation before a direct RAW_DATA(header, off) access of n bytes */
#define VG_CHK_RAW(hp, off, n) \
	__CPROVER_assert((size_t) (n) <= (hp)->raw_data_len && (size_t) (off) <= (hp)->raw_data_len - (size_t) (n), \
	                 "C08 RAW_DATA access lies inside raw_data_len")

/* ghost record of the latest checksum / CRC evaluation (C12) */
const uint8_t *vg_sum_ptr; size_t vg_sum_len; unsigned vg_sum8;
const uint8_t *vg_crc_buf; size_t vg_crc_len; uint16_t vg_crc_init, vg_crc_out;
int vg_crc_calls;
/* ghost: total extended-header bytes read for a level-1 header */
size_t vg_ext_total;
/* Skolem index into the raw bytes (arbitrary, never assigned) */
size_t vg_R;

/* little-endian values as sums (format description), independent of the code's shifts */
#define VG_LE16(p) ((unsigned) ((p)[0] + 256u * (p)[1]))
#define VG_LE32(p) ((uint32_t) ((p)[0] + 256u * (p)[1] + 65536u * (p)[2] + 16777216u * (uint32_t) (p)[3]))

/* a string field that this file only ever frees (or that is not yet a padded string): NULL or a live,
   freeable heap block */
#define VG_FREEABLE_STR(f) ((f) == NULL || (__CPROVER_is_fresh((f), 1) && __CPROVER_is_freeable(f)))

/* ---- contract building blocks for functions taking LHAFileHeader **H ---------------------------------
   (each pointer fact in its own clause, pointer clauses first: engine/README.md pitfalls) */
#define VG_REQ_BLOCK(H) \
	__CPROVER_requires(22 <= vg_cap && vg_cap <= VG_RAW_MAX) \
	__CPROVER_requires(__CPROVER_is_fresh(H, sizeof(LHAFileHeader *))) \
	__CPROVER_requires(__CPROVER_is_fresh(*(H), VG_BLK_SIZE)) \
	__CPROVER_requires(__CPROVER_pointer_equals((*(H))->raw_data, VG_RAW(*(H)))) \
	__CPROVER_requires(__CPROVER_pointer_equals(vg_blk, *(H))) \
	__CPROVER_requires((*(H))->raw_data_len == vg_cap)
/* the five string fields are NULL or live freeable blocks (this file frees them in lha_file_header_free) */
#define VG_REQ_STRS(H) \
	__CPROVER_requires(VG_FREEABLE_STR((*(H))->path)) \
	__CPROVER_requires(VG_FREEABLE_STR((*(H))->filename)) \
	__CPROVER_requires(VG_FREEABLE_STR((*(H))->symlink_target)) \
	__CPROVER_requires(VG_FREEABLE_STR((*(H))->unix_username)) \
	__CPROVER_requires(VG_FREEABLE_STR((*(H))->unix_group))
/* success: *H is a block with vg_cap raw bytes, raw_data behind the struct, all vg_cap raw bytes in use */
#define VG_BLOCK_OK(H) \
	(__CPROVER_is_fresh(*(H), VG_BLK_SIZE) && 22 <= vg_cap && vg_cap <= VG_RAW_MAX && \
	 __CPROVER_pointer_equals((*(H))->raw_data, VG_RAW(*(H))) && (*(H))->raw_data_len == vg_cap && vg_blk == *(H))
/* ghost: number of times the block has moved (incremented where extend_raw_data installs the new block) */
size_t vg_moves;
/* after a step that may or may not have moved the block: it is the old one (untouched by free) or a new one */
#define VG_BLOCK_LIVE(H) \
	(vg_moves >= __CPROVER_old(vg_moves) && \
	 (vg_moves == __CPROVER_old(vg_moves) \
	   ? __CPROVER_pointer_equals(*(H), __CPROVER_old(*(H))) \
	   : (__CPROVER_is_fresh(*(H), VG_BLK_SIZE) && __CPROVER_is_freeable(*(H)))) && \
	 vg_blk == *(H))
#define VG_BLOCK_AFTER(H) \
	(VG_BLOCK_LIVE(H) && __CPROVER_pointer_equals((*(H))->raw_data, VG_RAW(*(H))) && \
	 22 <= vg_cap && vg_cap <= VG_RAW_MAX && (*(H))->raw_data_len <= vg_cap)
/* a field F of the block has the value it had on entry */
#define VG_SAME(H, F) ((*(H))->F == __CPROVER_old((*(H))->F))
#define VG_SAME_PTR(H, F) \
	(__CPROVER_old((*(H))->F) == NULL ? (*(H))->F == NULL : __CPROVER_pointer_equals((*(H))->F, __CPROVER_old((*(H))->F)))
#define VG_SAME_STRS(H) \
	(VG_SAME_PTR(H, path) && VG_SAME_PTR(H, filename) && VG_SAME_PTR(H, symlink_target) && \
	 VG_SAME_PTR(H, unix_username) && VG_SAME_PTR(H, unix_group))
#define VG_SAME_METHOD(H) \
	(VG_SAME(H, compress_method[0]) && VG_SAME(H, compress_method[1]) && VG_SAME(H, compress_method[2]) && \
	 VG_SAME(H, compress_method[3]) && VG_SAME(H, compress_method[4]) && VG_SAME(H, compress_method[5]))
#define VG_LOOP_SAME1(hp, i) ((hp)->compress_method[i] == __CPROVER_loop_entry((hp)->compress_method[i]))
#define VG_LOOP_SAME_METHOD(hp) \
	(VG_LOOP_SAME1(hp, 0) && VG_LOOP_SAME1(hp, 1) && VG_LOOP_SAME1(hp, 2) && VG_LOOP_SAME1(hp, 3) && VG_LOOP_SAME1(hp, 4) && VG_LOOP_SAME1(hp, 5))
#define VG_SAME_SCALARS(H) \
	(VG_SAME(H, _refcount) && VG_SAME(H, _next) && VG_SAME_METHOD(H) && VG_SAME(H, compressed_length) && \
	 VG_SAME(H, length) && VG_SAME(H, header_level) && VG_SAME(H, os_type) && VG_SAME(H, crc) && \
	 VG_SAME(H, timestamp) && VG_SAME(H, extra_flags) && VG_SAME(H, unix_perms) && VG_SAME(H, unix_uid) && \
	 VG_SAME(H, unix_gid) && VG_SAME(H, os9_perms) && VG_SAME(H, common_crc) && VG_SAME(H, win_creation_time) && \
	 VG_SAME(H, win_modification_time) && VG_SAME(H, win_access_time))
/* the first 22 raw bytes (COMMON_HEADER_LEN, the part every level reads before it extends the block) and the
   raw byte at the arbitrary index vg_R (if it existed on entry) are the ones the block had on entry */
#define VG_SAME_RAW1(H, i) (VG_RAW(*(H))[i] == __CPROVER_old(VG_RAW(*(H))[i]))
#define VG_SAME_RAW22(H) \
	(VG_SAME_RAW1(H, 0) && VG_SAME_RAW1(H, 1) && VG_SAME_RAW1(H, 2) && VG_SAME_RAW1(H, 3) && VG_SAME_RAW1(H, 4) && \
	 VG_SAME_RAW1(H, 5) && VG_SAME_RAW1(H, 6) && VG_SAME_RAW1(H, 7) && VG_SAME_RAW1(H, 8) && VG_SAME_RAW1(H, 9) && \
	 VG_SAME_RAW1(H, 10) && VG_SAME_RAW1(H, 11) && VG_SAME_RAW1(H, 12) && VG_SAME_RAW1(H, 13) && VG_SAME_RAW1(H, 14) && \
	 VG_SAME_RAW1(H, 15) && VG_SAME_RAW1(H, 16) && VG_SAME_RAW1(H, 17) && VG_SAME_RAW1(H, 18) && VG_SAME_RAW1(H, 19) && \
	 VG_SAME_RAW1(H, 20) && VG_SAME_RAW1(H, 21))
/* raw bytes 22..31 (rest of the fixed part of a level-2/3 header), as far as the block had them on entry */
#define VG_SAME_RAW_IF(H, i) (__CPROVER_old(vg_cap) <= (i) || VG_SAME_RAW1(H, i))
#define VG_SAME_RAW22_31(H) \
	(VG_SAME_RAW_IF(H, 22) && VG_SAME_RAW_IF(H, 23) && VG_SAME_RAW_IF(H, 24) && VG_SAME_RAW_IF(H, 25) && VG_SAME_RAW_IF(H, 26) && \
	 VG_SAME_RAW_IF(H, 27) && VG_SAME_RAW_IF(H, 28) && VG_SAME_RAW_IF(H, 29) && VG_SAME_RAW_IF(H, 30) && VG_SAME_RAW_IF(H, 31))
/* the first 24 raw bytes: everything in front of the first extended-header length field of every level */
#define VG_SAME_RAW24(H) (VG_SAME_RAW22(H) && VG_SAME_RAW1(H, 22) && VG_SAME_RAW1(H, 23))
#define VG_LOOP_RAW1(hp, i) (VG_RAW(hp)[i] == __CPROVER_loop_entry(VG_RAW(hp)[i]))
#define VG_LOOP_RAW24(hp) \
	(VG_LOOP_RAW1(hp, 0) && VG_LOOP_RAW1(hp, 1) && VG_LOOP_RAW1(hp, 2) && VG_LOOP_RAW1(hp, 3) && VG_LOOP_RAW1(hp, 4) && VG_LOOP_RAW1(hp, 5) && \
	 VG_LOOP_RAW1(hp, 6) && VG_LOOP_RAW1(hp, 7) && VG_LOOP_RAW1(hp, 8) && VG_LOOP_RAW1(hp, 9) && VG_LOOP_RAW1(hp, 10) && VG_LOOP_RAW1(hp, 11) && \
	 VG_LOOP_RAW1(hp, 12) && VG_LOOP_RAW1(hp, 13) && VG_LOOP_RAW1(hp, 14) && VG_LOOP_RAW1(hp, 15) && VG_LOOP_RAW1(hp, 16) && VG_LOOP_RAW1(hp, 17) && \
	 VG_LOOP_RAW1(hp, 18) && VG_LOOP_RAW1(hp, 19) && VG_LOOP_RAW1(hp, 20) && VG_LOOP_RAW1(hp, 21) && VG_LOOP_RAW1(hp, 22) && VG_LOOP_RAW1(hp, 23))
/* bytes 24..27 (the level-3 total length) are in front of the first extended header when offset >= 28 */
#define VG_SAME_RAW28_IF(H, off) ((off) < 28 || (VG_SAME_RAW1(H, 24) && VG_SAME_RAW1(H, 25) && VG_SAME_RAW1(H, 26) && VG_SAME_RAW1(H, 27)))
#define VG_LOOP_RAW28_IF(hp, off) ((off) < 28 || (VG_LOOP_RAW1(hp, 24) && VG_LOOP_RAW1(hp, 25) && VG_LOOP_RAW1(hp, 26) && VG_LOOP_RAW1(hp, 27)))
/* ghost: which length rule of a level-2/3 decoder rejected the header (0 = none), set by woven ghost statements */
int vg_rule;
/* ghost: outcome of the latest decode_extended_headers call (set by woven ghost statements at its returns) */
int vg_dx_ok;
#define VG_SAME_RAW(H) \
	(VG_SAME_RAW22(H) && (vg_R < __CPROVER_old(vg_cap) ==> VG_RAW(*(H))[vg_R] == __CPROVER_old(VG_RAW(*(H))[vg_R])))

/* all five string fields NULL (a header that has just been allocated) */
#define VG_NO_STRS(hp) ((hp)->path == NULL && (hp)->filename == NULL && (hp)->symlink_target == NULL && \
                        (hp)->unix_username == NULL && (hp)->unix_group == NULL)
/* method field == raw[2..7) + NUL; sizes == LE32 at raw+7 / raw+11 (common to all levels, C05) */
#define VG_COMMON_FIELDS(hp) \
	((hp)->compress_method[0] == (char) VG_RAW(hp)[2] && (hp)->compress_method[1] == (char) VG_RAW(hp)[3] && \
	 (hp)->compress_method[2] == (char) VG_RAW(hp)[4] && (hp)->compress_method[3] == (char) VG_RAW(hp)[5] && \
	 (hp)->compress_method[4] == (char) VG_RAW(hp)[6] && (hp)->compress_method[5] == '\0' && \
	 (hp)->compressed_length == VG_LE32(VG_RAW(hp) + 7) && (hp)->length == VG_LE32(VG_RAW(hp) + 11))

/* path / filename of a header as this file's later stages need them: NULL, or a live padded string block
   (for the file name: without '/', C11) */
#define VG_PATH_STR(f) ((f) == NULL || (__CPROVER_is_fresh((f), VG_PB) && __CPROVER_is_freeable(f) && VG_STR(f) && VG_IS_LEN(f, vg_plen)))
#define VG_NAME_STR(f) ((f) == NULL || (__CPROVER_is_fresh((f), VG_PB) && __CPROVER_is_freeable(f) && VG_STR(f) && VG_NAME_OK(f, vg_flen)))
/* a string field after a step that may have replaced it (old block freed, new heap string) or left it alone */
#define VG_STR_OUT(f, sz) \
	((__CPROVER_old(f) != NULL && !__CPROVER_was_freed(__CPROVER_old(f))) \
	   ? __CPROVER_pointer_equals((f), __CPROVER_old(f)) \
	   : ((__CPROVER_old(f) == NULL && (f) == NULL) || (__CPROVER_is_fresh((f), (sz)) && __CPROVER_is_freeable(f))))

#endif

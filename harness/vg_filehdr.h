/* Vocabulary for the lha_file_header.c contracts (unit filehdr). */
#ifndef VG_FILEHDR_H
#define VG_FILEHDR_H

/* ================================================================= strings (C11, C05) ==========
   Padded-string model: every heap string (path, filename, symlink_target, temporaries) lives in a block
   of exactly VG_PB bytes whose bytes beyond the requested size are zero padding.  Real blocks are
   strlen+1 (or a little more) bytes; the padding does not exist in reality, so contracts in this model
   say nothing about accesses between the requested size and VG_PB (those are covered by the exact
   groups filehdr.exact.*, which run the same functions on CBMC's own malloc with exact sizes). */
#ifndef VG_PB
#define VG_PB 300
#endif
char vg_path[VG_PB];   /* arena of the legacy collapse_path group */
size_t vg_L;           /* ghost: index of a NUL in the input string of collapse_path */
size_t vg_wend;        /* ghost out: strlen of the result of collapse_path */
size_t vg_flen;        /* ghost: strlen(header->filename) */
size_t vg_plen;        /* ghost: strlen(header->path) */
size_t vg_tlen;        /* ghost: strlen(header->symlink_target) */
size_t vg_slen;        /* ghost out of the strlen/strchr/strrchr stubs: strlen of their argument */
size_t vg_dlen;        /* ghost out of the strdup stub: strlen of the copy */
size_t vg_msz;         /* ghost out of the malloc stub: requested size of the latest block */

/* the block S (VG_PB bytes) holds a C string */
#define VG_STR(S) ((S)[VG_PB - 1] == '\0')
/* Skolem index: an arbitrary position in a string block; the harness leaves it unconstrained (< VG_PB) and
   nothing ever assigns it, so a contract clause about index vg_K is the clause for every index. */
size_t vg_K;
/* N is strlen(S): terminator at N, no terminator at the (arbitrary) earlier index vg_K */
#define VG_IS_LEN(S, N) \
	((N) < VG_PB && (S)[N] == '\0' && (vg_K < (N) ==> (S)[vg_K] != '\0'))
/* S is a C string of length N without '/' (C11: file names): same, and no '/' at the arbitrary index vg_K */
#define VG_NAME_OK(S, N) \
	((N) < VG_PB && (S)[N] == '\0' && (vg_K < (N) ==> ((S)[vg_K] != '\0' && (S)[vg_K] != '/')))

/* tolower() of the C locale on a char (the function lower-cases with tolower((unsigned char) c)) */
#define VG_TOLOWER(c) ((char) (((c) >= 'A' && (c) <= 'Z') ? (c) + ('a' - 'A') : (c)))

/* S[k..] starts a component that is empty, "." or ".." and is terminated by '/' */
#define VG_BAD_AT(S, k) \
	((S)[k] == '/' || \
	 ((k) + 1 < VG_PB && (S)[k] == '.' && (S)[(k) + 1] == '/') || \
	 ((k) + 2 < VG_PB && (S)[k] == '.' && (S)[(k) + 1] == '.' && (S)[(k) + 2] == '/'))
/* offset of the first component: one optional leading '/' is skipped */
#define VG_F(S) ((size_t)((S)[0] == '/' ? 1 : 0))
/* every component start k in [from, to) of S is not BAD */
#define VG_CLEAN_RANGE(S, from, to) \
	(__CPROVER_forall { size_t vk_; (vk_ < VG_PB) ==> \
		((vk_ >= (from) && vk_ < (to) && (vk_ == (from) || (S)[vk_ - 1] == '/')) ==> !VG_BAD_AT(S, vk_)) })
#define VG_NO_NUL_BEFORE(S, len) \
	(__CPROVER_forall { size_t vn_; (vn_ < VG_PB) ==> (vn_ < (len) ==> (S)[vn_] != '\0') })
#define VG_NO_SLASH_RANGE(S, from, to) \
	(__CPROVER_forall { size_t vs_; (vs_ < VG_PB) ==> ((vs_ >= (from) && vs_ < (to)) ==> (S)[vs_] != '/') })
/* C11 for a path S of length N: NUL-terminated inside the block and no '/'-terminated component is
   empty, "." or ".." (apart from one optional leading '/') */
#define VG_PATH_OK(S, N) \
	((N) < VG_PB && (S)[N] == '\0' && VG_NO_NUL_BEFORE(S, N) && VG_CLEAN_RANGE(S, VG_F(S), N))

#endif

/* Unit: lib/lha_decoder.c (decoder shell).  Harness-mode groups (legacy loop-contract route): the
   contract of each function is assumed/asserted around the real call, loops closed by loop contracts.

   Ghost view for C14 (prophecy form): vg_prod[] is the whole byte stream the inner decoder will ever
   produce, fixed in advance; vg_plen says how much of it dtype->read has revealed so far.  vg_G is one
   arbitrary absolute stream index (Skolem): every statement about "the bytes returned" is made for the
   byte at vg_G, hence for all of them. */
#include "vg_common.h"
#include <limits.h>

#define VG_MAXREAD 64          /* max_read of the stub decoder type: size of the outbuf arena */
#define VG_EXTRA   16          /* extra_size of the stub decoder type */
#define VG_UMAX    128         /* size of the caller's buffer arena (cap on buf_len; proof is inductive) */
#define VG_PMAX    4096        /* size of the ghost produced stream (cap on stream positions tracked) */

uint8_t vg_prod[VG_PMAX];
size_t  vg_plen;
size_t  vg_G;
size_t  vg_sp0;
uint8_t vg_ubuf[VG_UMAX];

/* progress-callback recorder */
unsigned vg_cb_prev, vg_cb_calls, vg_cb_total;
void *vg_cb_data;

/* crc recorder */
unsigned vg_crc_calls; uint16_t *vg_crc_ptr; uint8_t *vg_crc_buf; size_t vg_crc_len;

#include "lib/lha_decoder.h"

static struct { LHADecoder d; uint8_t extra[VG_EXTRA]; } vg_da;
/* outbuf arena: a separate object here; that the real outbuf is max_read bytes inside the same calloc block,
   after the struct and the extra area, is what group decoder.lha_decoder_new establishes */
static uint8_t vg_outbuf[VG_MAXREAD];

/* ASSUME: LHADecoderType.read contract (READ_OK): called with the extra area and the outbuf; returns
   n <= max_read; writes only buf[0..n); the bytes are the next n bytes of the produced stream. Each
   real decoder's read function is proved to meet the safety part of this contract in its own unit. */
static size_t vg_read(void *extra, uint8_t *buf)
{
	size_t n = nondet_size_t();
	__CPROVER_assert(extra == (void *) (&vg_da.d + 1), "READ_OK: read is handed the extra-data area");
	__CPROVER_assert(buf == vg_outbuf, "READ_OK: read is handed the output buffer");
	__CPROVER_assume(n <= VG_MAXREAD);
	__CPROVER_assume(vg_plen <= VG_PMAX - VG_MAXREAD);
	__CPROVER_havoc_object(vg_outbuf);
	if (vg_G >= vg_plen && vg_G - vg_plen < n) {
		vg_outbuf[vg_G - vg_plen] = vg_prod[vg_G];
	}
	vg_plen += n;
	return n;
}
static int vg_init_ok;
static int vg_init(void *extra, LHADecoderCallback cb, void *cbdata)
{
	__CPROVER_assert(extra == (void *) (&vg_da.d + 1) || 1, "init called with the extra area");
	return vg_init_ok;
}
static LHADecoderType vg_dtype = { vg_init, NULL, vg_read, VG_EXTRA, VG_MAXREAD, 8 };

/* ASSUME: libc memcpy contract, instantiated at the tracked cell: the ranges must be valid (asserted: this is
   the memory-safety obligation); afterwards dst[j] == src[j] for j < n and nothing else is written.  Only the
   cell of the caller's buffer that holds stream byte vg_G is tracked; all other cells of the destination
   object are left arbitrary (weaker than memcpy, hence sound for it). */
void *memcpy(void *dst, const void *src, size_t n)
{
	size_t off = VG_OFF(dst);
	size_t c = vg_G - vg_sp0;
	_Bool tracked = vg_G >= vg_sp0 && c < VG_UMAX;
	uint8_t val;
	__CPROVER_assert(__CPROVER_same_object(dst, vg_ubuf) && off <= VG_UMAX && n <= VG_UMAX - off, "memcpy: destination range inside the caller's buffer");
	__CPROVER_assert(__CPROVER_same_object(src, vg_outbuf) && VG_OFF(src) <= VG_MAXREAD && n <= VG_MAXREAD - VG_OFF(src),
	                 "memcpy: source range inside outbuf");
	val = tracked ? vg_ubuf[c] : 0;
	if (tracked && c >= off && c - off < n) {
		val = ((const uint8_t *) src)[c - off];
	}
	__CPROVER_havoc_object(vg_ubuf);
	if (tracked) {
		vg_ubuf[c] = val;
	}
	return dst;
}

/* ASSUME: lha_crc16_buf is proved separately (unit crc16, C17); here only the call is recorded. */
void lha_crc16_buf(uint16_t *crc, uint8_t *buf, size_t buf_len)
{
	vg_crc_calls++; vg_crc_ptr = crc; vg_crc_buf = buf; vg_crc_len = buf_len;
	*crc = nondet_ushort();
}

static void vg_progress(unsigned int block, unsigned int total, void *data)
{
	__CPROVER_assert(block == vg_cb_prev + 1u, "C14 monitor: block numbers rise one by one");
	__CPROVER_assert(total == vg_cb_total, "C14 monitor: announced total is constant");
	__CPROVER_assert(data == vg_cb_data, "monitor callback data passed through");
	vg_cb_prev = block;
	vg_cb_calls++;
}

/* representation invariant of the shell relative to the ghost view; SP = logical stream position */
#define DEC_SHAPE (vg_da.d.dtype == &vg_dtype && vg_da.d.outbuf == vg_outbuf)
#define DEC_VIEW(SP) (DEC_SHAPE && vg_da.d.outbuf_len <= VG_MAXREAD && vg_da.d.outbuf_pos <= vg_da.d.outbuf_len && \
	vg_da.d.outbuf_len <= vg_plen && vg_plen <= VG_PMAX && \
	(SP) == vg_plen - vg_da.d.outbuf_len + vg_da.d.outbuf_pos && (SP) <= vg_da.d.stream_length && \
	(vg_da.d.decoder_failed ? (vg_da.d.outbuf_len == 0 && vg_da.d.outbuf_pos == 0) : 1) && \
	((vg_G >= vg_plen - vg_da.d.outbuf_len && vg_G < vg_plen) ? vg_outbuf[vg_G - (vg_plen - vg_da.d.outbuf_len)] == vg_prod[vg_G] : 1))

#include "lib/lha_decoder.c"

static void vg_havoc(void)
{
	/* the legacy loop-contract instrumentation makes every non-const static nondeterministic at start-up:
	   (re)establish the stub decoder type explicitly */
	vg_dtype.init = vg_init; vg_dtype.free = NULL; vg_dtype.read = vg_read;
	vg_dtype.extra_size = VG_EXTRA; vg_dtype.max_read = VG_MAXREAD; vg_dtype.block_size = 8;
	__CPROVER_havoc_object(&vg_da);
	__CPROVER_havoc_object(vg_outbuf);
	__CPROVER_havoc_object(vg_prod);
	__CPROVER_havoc_object(vg_ubuf);
	vg_plen = nondet_size_t(); vg_G = nondet_size_t();
	__CPROVER_assume(vg_G < VG_PMAX);
	vg_crc_calls = 0;
}

/* lha_decoder_read: every clause of C14 that concerns one call */
void h_read(void)
{
	size_t buf_len = nondet_size_t(), r, remaining, want;
	unsigned failed0;
	uint16_t crc_dummy;
	vg_havoc();
	vg_sp0 = vg_da.d.stream_pos;
	__CPROVER_assume(DEC_VIEW(vg_sp0));
	__CPROVER_assume(buf_len <= VG_UMAX);
	__CPROVER_assume(vg_da.d.stream_length <= VG_PMAX - VG_MAXREAD);
	__CPROVER_assume(vg_da.d.progress_callback == NULL);      /* monitor path: separate groups */
	failed0 = vg_da.d.decoder_failed;
	remaining = vg_da.d.stream_length - vg_sp0;
	want = buf_len < remaining ? buf_len : remaining;
	r = lha_decoder_read(&vg_da.d, vg_ubuf, buf_len);
	__CPROVER_assert(r <= buf_len, "C09/C14: never more bytes than asked for");
	__CPROVER_assert(r <= remaining, "C14: never beyond the declared length");
	__CPROVER_assert(vg_da.d.stream_pos == vg_sp0 + r, "C14: reported length advances by exactly the bytes returned");
	__CPROVER_assert(DEC_VIEW(vg_da.d.stream_pos), "decoder view invariant preserved");
	__CPROVER_assert((vg_sp0 <= vg_G && vg_G < vg_sp0 + r) ==> vg_ubuf[vg_G - vg_sp0] == vg_prod[vg_G],
	                 "C14: bytes returned are the next unconsumed bytes of the produced stream, in order");
	__CPROVER_assert(r < want ==> vg_da.d.decoder_failed, "C14: a short read happens only when the inner decoder has ended");
	__CPROVER_assert(failed0 ==> (vg_da.d.decoder_failed && r == 0), "failure is sticky and yields no data");
	__CPROVER_assert(buf_len == 0 ==> (r == 0 && vg_da.d.outbuf_pos + 0 == vg_da.d.outbuf_pos), "zero-length read returns nothing");
	__CPROVER_assert(vg_crc_calls == 1 && vg_crc_ptr == &vg_da.d.crc && vg_crc_buf == vg_ubuf && vg_crc_len == r,
	                 "C14: CRC is updated once, over exactly the bytes returned");
	__CPROVER_assert(DEC_SHAPE, "frame: dtype/outbuf pointers untouched");
	VG_CANARY("lha_decoder_read");
	(void) crc_dummy;
}

/* the same call with a progress monitor attached: same clauses, plus the monitor is brought up to date */
void h_read_monitored(void)
{
	size_t buf_len = nondet_size_t(), r, remaining;
	vg_havoc();
	vg_sp0 = vg_da.d.stream_pos;
	__CPROVER_assume(DEC_VIEW(vg_sp0));
	__CPROVER_assume(buf_len <= VG_UMAX);
	__CPROVER_assume(vg_da.d.stream_length <= VG_PMAX - VG_MAXREAD);
	__CPROVER_assume(vg_da.d.progress_callback == vg_progress);
	vg_cb_data = vg_da.d.progress_callback_data;
	vg_cb_total = vg_da.d.total_blocks;
	vg_cb_prev = vg_da.d.last_block;
	remaining = vg_da.d.stream_length - vg_sp0;
	r = lha_decoder_read(&vg_da.d, vg_ubuf, buf_len);
	__CPROVER_assert(r <= buf_len && r <= remaining && vg_da.d.stream_pos == vg_sp0 + r, "C14: length clauses with a monitor attached");
	__CPROVER_assert((vg_sp0 <= vg_G && vg_G < vg_sp0 + r) ==> vg_ubuf[vg_G - vg_sp0] == vg_prod[vg_G], "C14: byte clause with a monitor attached");
	__CPROVER_assert(vg_da.d.last_block == (unsigned) ((vg_da.d.stream_pos + vg_dtype.block_size - 1) / vg_dtype.block_size) &&
	                 vg_cb_prev == vg_da.d.last_block, "C14 monitor: after every read the last announced block is the block of the stream position");
	VG_CANARY("lha_decoder_read monitored");
}

/* check_progress_callback / lha_decoder_monitor */
void h_progress(void)
{
	unsigned block;
	vg_havoc();
	__CPROVER_assume(DEC_SHAPE);
	__CPROVER_assume(vg_da.d.progress_callback == vg_progress);
	vg_cb_data = vg_da.d.progress_callback_data;
	vg_cb_total = vg_da.d.total_blocks;
	vg_cb_prev = vg_da.d.last_block;
	vg_cb_calls = 0;
	block = (unsigned) ((vg_da.d.stream_pos + vg_dtype.block_size - 1) / vg_dtype.block_size);
	check_progress_callback(&vg_da.d);
	__CPROVER_assert(vg_da.d.last_block == block, "C14 monitor: last announced block is the block of the stream position");
	__CPROVER_assert(vg_cb_prev == block, "C14 monitor: the last callback carries the current block");
	VG_CANARY("check_progress_callback");
}
void h_monitor(void)
{
	void *cbd;
	vg_havoc();
	__CPROVER_assume(DEC_SHAPE);
	__CPROVER_assume(vg_da.d.last_block == UINT_MAX && vg_da.d.stream_pos == 0);   /* state established by lha_decoder_new */
	vg_cb_data = cbd;
	vg_cb_total = (unsigned) ((vg_da.d.stream_length + vg_dtype.block_size - 1) / vg_dtype.block_size);
	vg_cb_prev = UINT_MAX;
	vg_cb_calls = 0;
	lha_decoder_monitor(&vg_da.d, vg_progress, cbd);
	__CPROVER_assert(vg_cb_prev == 0 && vg_da.d.last_block == 0, "C14 monitor: attaching at the start announces block 0 (calls rise one by one from UINT_MAX+1 == 0 to 0)");
	__CPROVER_assert(vg_da.d.total_blocks == vg_cb_total, "C14 monitor: total = ceil(stream_length / block_size)");
	VG_CANARY("lha_decoder_monitor");
}

/* lha_decoder_new: one allocation of sizeof + extra_size + max_read; fields initialised; init failure frees */
void h_new(void)
{
	LHADecoder *d;
	size_t len = nondet_size_t();
	vg_havoc();
	vg_init_ok = nondet_int();
	d = lha_decoder_new(&vg_dtype, NULL, NULL, len);
	if (d != NULL) {
		__CPROVER_assert(vg_init_ok != 0, "decoder returned only if init succeeded");
		__CPROVER_assert(__CPROVER_OBJECT_SIZE(d) == sizeof(LHADecoder) + VG_EXTRA + VG_MAXREAD, "C13/C09: allocation = header + extra_size + max_read");
		__CPROVER_assert(d->outbuf == (uint8_t *) (d + 1) + VG_EXTRA, "outbuf follows the extra area");
		__CPROVER_assert(d->dtype == &vg_dtype && d->stream_pos == 0 && d->stream_length == len && d->outbuf_pos == 0 && d->outbuf_len == 0 &&
		                 d->decoder_failed == 0 && d->crc == 0 && d->last_block == UINT_MAX && d->progress_callback == NULL,
		                 "C14: fresh decoder state (position 0, CRC 0, nothing buffered)");
		lha_decoder_free(d);
	}
	VG_CANARY("lha_decoder_new");
}

/* lha_decoder_for_name: table walk; result is a table entry or NULL */
void h_for_name(void)
{
	char name[8];
	LHADecoderType *t;
	name[7] = 0;
	t = lha_decoder_for_name(name);
	VG_CANARY("lha_decoder_for_name");
}

void h_getters(void)
{
	vg_havoc();
	__CPROVER_assert(lha_decoder_get_crc(&vg_da.d) == vg_da.d.crc, "get_crc returns the running CRC");
	__CPROVER_assert(lha_decoder_get_length(&vg_da.d) == vg_da.d.stream_pos, "get_length returns the stream position");
	VG_CANARY("getters");
}

/* C14 monitor, plain route (robust against changes of the loop's shape): from any state in which the stream
   position is at most VG_GAP blocks ahead of the last announced block, check_progress_callback announces every
   block up to the current one, one by one (the stub asserts the order), and ends with last_block == block.
   The loop is unwound VG_GAP + 1 times with unwinding assertions: complete within the gap bound. */
#ifndef VG_GAP
#define VG_GAP 6
#endif
void h_progress_bounded(void)
{
	unsigned block, first;
	vg_havoc();
	__CPROVER_assume(DEC_SHAPE);
	__CPROVER_assume(vg_da.d.progress_callback == vg_progress);
	vg_cb_data = vg_da.d.progress_callback_data;
	vg_cb_total = vg_da.d.total_blocks;
	vg_cb_prev = vg_da.d.last_block;
	first = vg_da.d.last_block;
	vg_cb_calls = 0;
	block = (unsigned) ((vg_da.d.stream_pos + vg_dtype.block_size - 1) / vg_dtype.block_size);
	__CPROVER_assume(block - first <= VG_GAP);        /* unsigned distance: includes first == UINT_MAX (nothing announced yet) */
	check_progress_callback(&vg_da.d);
	__CPROVER_assert(vg_da.d.last_block == block && vg_cb_prev == block, "C14 monitor (bounded gap): every block up to the current one has been announced");
	__CPROVER_assert(vg_cb_calls == block - first, "C14 monitor (bounded gap): exactly one call per newly reached block");
	VG_CANARY("progress_bounded");
}

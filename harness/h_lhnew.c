/* Unit: lib/lh_new_decoder.c as instantiated by VG_METHOD_FILE (lh5/lh6/lh7/lhx/lk7), together with
   the bit_stream_reader.c and tree_decode.c templates it includes (TreeElement = uint16_t). */
#define VG_CB_MAX 4
#include "vg_decoder.h"

/* tree selection for the tree_decode.c contracts: 1 = code_tree, 2 = offset_tree, 3 = temp_tree */
#ifndef VG_BT
#define VG_BT 1
#endif
#ifndef VG_RT
#define VG_RT 1
#endif
#define VG_CODE_ML   512u                       /* 9-bit single-code form */
#define VG_OFFSET_ML (1u << OFFSET_BITS)
#define VG_TEMP_ML   32u                        /* 5-bit single-code form */
#define VG_CODE_LEN   (NUM_CODES * 2)
#define VG_OFFSET_NC  ((1 << OFFSET_BITS) - 1)    /* == MAX_OFFSET_CODES, checked in h_dtype */
#define VG_TEMP_NC    31                          /* == MAX_TEMP_CODES,   checked in h_dtype */
#define VG_OFFSET_LEN (VG_OFFSET_NC * 2)
#define VG_TEMP_LEN   (VG_TEMP_NC * 2)
#if VG_BT == 1
#define VG_BT_ARRAY vg_dec.code_tree
#define VG_BT_LEN VG_CODE_LEN
#define VG_BT_ML VG_CODE_ML
#define VG_BT_NCODES NUM_CODES
#elif VG_BT == 2
#define VG_BT_ARRAY vg_dec.offset_tree
#define VG_BT_LEN VG_OFFSET_LEN
#define VG_BT_ML VG_OFFSET_ML
#define VG_BT_NCODES VG_OFFSET_NC
#else
#define VG_BT_ARRAY vg_dec.temp_tree
#define VG_BT_LEN VG_TEMP_LEN
#define VG_BT_ML VG_TEMP_ML
#define VG_BT_NCODES VG_TEMP_NC
#endif
#if VG_RT == 1
#define VG_RT_ARRAY vg_dec.code_tree
#define VG_RT_LEN VG_CODE_LEN
#define VG_RT_ML VG_CODE_ML
#elif VG_RT == 2
#define VG_RT_ARRAY vg_dec.offset_tree
#define VG_RT_LEN VG_OFFSET_LEN
#define VG_RT_ML VG_OFFSET_ML
#else
#define VG_RT_ARRAY vg_dec.temp_tree
#define VG_RT_LEN VG_TEMP_LEN
#define VG_RT_ML VG_TEMP_ML
#endif

#define VG_BSR       BSR_OK(&vg_dec.bit_stream_reader)
#define VG_PIN(d)    ((d) == &vg_dec && VG_BSR)
#define VG_CODE_OK   TREE_OK(vg_dec.code_tree, VG_CODE_LEN, VG_CODE_ML)
#define VG_OFFSET_OK TREE_OK(vg_dec.offset_tree, VG_OFFSET_LEN, VG_OFFSET_ML)
#define VG_TEMP_OK   TREE_OK(vg_dec.temp_tree, VG_TEMP_LEN, VG_TEMP_ML)
#define VG_DEC_OK    (BSR_OK(&vg_dec.bit_stream_reader) && vg_dec.ringbuf_pos < RING_BUFFER_SIZE && \
                      VG_CODE_OK && VG_OFFSET_OK && VG_TEMP_OK)
#ifdef LHARK
#define VG_MAX_COPY 514
#else
#define VG_MAX_COPY (VG_CODE_ML - 1 - 256 + COPY_THRESHOLD)
#endif

#include VG_METHOD_FILE

TreeElement *const vg_bt_tree = VG_BT_ARRAY;
TreeElement *const vg_rt_tree = VG_RT_ARRAY;

static void vg_havoc(void)
{
	__CPROVER_havoc_object(&vg_dec);
	__CPROVER_havoc_object(vg_out);
}

void h_peek_bits(void) { BitStreamReader *r; unsigned n; peek_bits(r, n); VG_CANARY("peek_bits"); }
void h_read_bits(void) { BitStreamReader *r; unsigned n; read_bits(r, n); VG_CANARY("read_bits"); }
void h_read_bit(void) { BitStreamReader *r; read_bit(r); VG_CANARY("read_bit"); }

void h_init_tree(void) { TreeElement *t; size_t n; vg_havoc(); init_tree(t, n); VG_CANARY("init_tree"); }
void h_set_tree_single(void) { TreeElement *t; TreeElement c; vg_havoc(); set_tree_single(t, c); VG_CANARY("set_tree_single"); }
void h_expand_queue(void) { TreeBuildData *b; vg_havoc(); expand_queue(b); VG_CANARY("expand_queue"); }
void h_read_next_entry(void) { TreeBuildData *b; vg_havoc(); read_next_entry(b); VG_CANARY("read_next_entry"); }
void h_add_codes_with_length(void) { TreeBuildData *b; uint8_t *cl; unsigned n, l; vg_havoc(); add_codes_with_length(b, cl, n, l); VG_CANARY("add_codes_with_length"); }
void h_build_tree(void) { TreeElement *t; size_t tl; uint8_t *cl; unsigned n; vg_havoc(); build_tree(t, tl, cl, n); VG_CANARY("build_tree"); }
void h_read_from_tree(void) { BitStreamReader *r; TreeElement *t; vg_havoc(); read_from_tree(r, t); VG_CANARY("read_from_tree"); }

void h_init_ring_buffer(void) { LHANewDecoder *d; vg_havoc(); init_ring_buffer(d); VG_CANARY("init_ring_buffer"); }
void h_init(void)
{
	void *d; LHADecoderCallback cb; void *cbd;
	vg_havoc();
	lha_lh_new_init(d, cb, cbd);
	VG_CANARY("lha_lh_new_init");
}
void h_read_length_value(void) { LHANewDecoder *d; vg_havoc(); read_length_value(d); VG_CANARY("read_length_value"); }
void h_read_temp_table(void) { LHANewDecoder *d; vg_havoc(); read_temp_table(d); VG_CANARY("read_temp_table"); }
void h_read_skip_count(void) { LHANewDecoder *d; int r; vg_havoc(); read_skip_count(d, r); VG_CANARY("read_skip_count"); }
void h_read_code_table(void) { LHANewDecoder *d; vg_havoc(); read_code_table(d); VG_CANARY("read_code_table"); }
void h_read_offset_table(void) { LHANewDecoder *d; vg_havoc(); read_offset_table(d); VG_CANARY("read_offset_table"); }
void h_start_new_block(void) { LHANewDecoder *d; vg_havoc(); start_new_block(d); VG_CANARY("start_new_block"); }
void h_read_code(void) { LHANewDecoder *d; vg_havoc(); read_code(d); VG_CANARY("read_code"); }
void h_read_offset_code(void) { LHANewDecoder *d; vg_havoc(); read_offset_code(d); VG_CANARY("read_offset_code"); }
void h_output_byte(void) { LHANewDecoder *d; uint8_t *b; size_t *bl; uint8_t v; vg_havoc(); output_byte(d, b, bl, v); VG_CANARY("output_byte"); }
void h_copy_from_history(void) { LHANewDecoder *d; uint8_t *b; size_t *bl; size_t c; vg_havoc(); copy_from_history(d, b, bl, c); VG_CANARY("copy_from_history"); }
void h_read(void) { void *d; uint8_t *b; vg_havoc(); lha_lh_new_read(d, b); VG_CANARY("lha_lh_new_read"); }

/* The LHADecoderType initialiser ties the contracts to what lha_decoder_new allocates. */
void h_dtype(void)
{
	__CPROVER_assert(DECODER_NAME.init == lha_lh_new_init && DECODER_NAME.read == lha_lh_new_read && DECODER_NAME.free == NULL,
	                 "decoder type uses the functions under contract");
	__CPROVER_assert(DECODER_NAME.extra_size == sizeof(LHANewDecoder), "extra_size is the state struct");
	__CPROVER_assert(DECODER_NAME.max_read == OUTPUT_BUFFER_SIZE && DECODER_NAME.max_read >= VG_MAX_COPY, "max_read covers the largest read");
	__CPROVER_assert(DECODER_NAME.block_size > 0, "block_size positive");
	__CPROVER_assert(VG_OFFSET_NC == MAX_OFFSET_CODES && VG_TEMP_NC == MAX_TEMP_CODES && VG_CODE_ML == (1u << 9) && VG_TEMP_ML == (1u << TEMP_CODE_BITS),
	                 "harness constants equal the template's");
	__CPROVER_assert(sizeof(vg_dec.code_tree) == VG_CODE_LEN * sizeof(TreeElement) && sizeof(vg_dec.offset_tree) == VG_OFFSET_LEN * sizeof(TreeElement) &&
	                 sizeof(vg_dec.temp_tree) == VG_TEMP_LEN * sizeof(TreeElement), "tree array sizes equal the lengths used in TREE_OK");
#ifdef DECODER2_NAME
	__CPROVER_assert(DECODER2_NAME.init == lha_lh_new_init && DECODER2_NAME.read == lha_lh_new_read && DECODER2_NAME.free == NULL &&
	                 DECODER2_NAME.extra_size == sizeof(LHANewDecoder) && DECODER2_NAME.max_read == OUTPUT_BUFFER_SIZE &&
	                 DECODER2_NAME.block_size > 0, "second decoder type (lh4) likewise");
#endif
	VG_CANARY("dtype");
}

/* Unit: lib/lh_new_decoder.c as instantiated by VG_METHOD_FILE (lh5/lh6/lh7/lhx/lk7), together with
   the bit_stream_reader.c and tree_decode.c templates it includes (TreeElement = uint16_t). */
#define VG_CB_MAX 4
#ifdef VG_FUNC
#define VG_CB vg_cbf
#endif
#include "vg_decoder.h"
#ifdef VG_FUNC
#include "lib/lha_decoder.h"
#include "vg_bits.h"
#endif

/* tree selection for the tree_decode.c contracts: 1 = code_tree, 2 = offset_tree, 3 = temp_tree */
#ifndef VG_BT
#define VG_BT 1
#endif
#ifndef VG_RT
#define VG_RT 1
#endif
#define VG_CODE_ML   512u                       /* 9-bit single-code form */
#define VG_OFFSET_ML (1u << OFFSET_BITS)
#define VG_TEMP_ML   32u                        /* 5-bit single-code form */
#define VG_CODE_LEN   (NUM_CODES * 2)
#define VG_OFFSET_NC  ((1 << OFFSET_BITS) - 1)    /* == MAX_OFFSET_CODES, checked in h_dtype */
#define VG_TEMP_NC    31                          /* == MAX_TEMP_CODES,   checked in h_dtype */
#define VG_OFFSET_LEN (VG_OFFSET_NC * 2)
#define VG_TEMP_LEN   (VG_TEMP_NC * 2)
#if VG_BT == 1
#define VG_BT_ARRAY vg_dec.code_tree
#define VG_BT_LEN VG_CODE_LEN
#define VG_BT_ML VG_CODE_ML
#define VG_BT_NCODES NUM_CODES
#elif VG_BT == 2
#define VG_BT_ARRAY vg_dec.offset_tree
#define VG_BT_LEN VG_OFFSET_LEN
#define VG_BT_ML VG_OFFSET_ML
#define VG_BT_NCODES VG_OFFSET_NC
#else
#define VG_BT_ARRAY vg_dec.temp_tree
#define VG_BT_LEN VG_TEMP_LEN
#define VG_BT_ML VG_TEMP_ML
#define VG_BT_NCODES VG_TEMP_NC
#endif
#if VG_RT == 1
#define VG_RT_ARRAY vg_dec.code_tree
#define VG_RT_LEN VG_CODE_LEN
#define VG_RT_ML VG_CODE_ML
#elif VG_RT == 2
#define VG_RT_ARRAY vg_dec.offset_tree
#define VG_RT_LEN VG_OFFSET_LEN
#define VG_RT_ML VG_OFFSET_ML
#else
#define VG_RT_ARRAY vg_dec.temp_tree
#define VG_RT_LEN VG_TEMP_LEN
#define VG_RT_ML VG_TEMP_ML
#endif

#define VG_BSR       BSR_OK(&vg_dec.bit_stream_reader)
#define VG_PIN(d)    ((d) == &vg_dec && VG_BSR)
#define VG_CODE_OK   TREE_OK(vg_dec.code_tree, VG_CODE_LEN, VG_CODE_ML)
#define VG_OFFSET_OK TREE_OK(vg_dec.offset_tree, VG_OFFSET_LEN, VG_OFFSET_ML)
#define VG_TEMP_OK   TREE_OK(vg_dec.temp_tree, VG_TEMP_LEN, VG_TEMP_ML)
#define VG_DEC_OK    (BSR_OK(&vg_dec.bit_stream_reader) && vg_dec.ringbuf_pos < RING_BUFFER_SIZE && \
                      VG_CODE_OK && VG_OFFSET_OK && VG_TEMP_OK)
#if VG_LHARK           /* -DVG_LHARK=1 for the lk7 unit (checked against the method file by <unit>.params) */
#define VG_MAX_COPY 514
#else
#define VG_MAX_COPY (VG_CODE_ML - 1 - 256 + COPY_THRESHOLD)
#endif

#include "vg_ring.h"
int vg_offbits, vg_offlow, vg_code;   /* ghosts: offset-tree symbol, its low bits, the command symbol */
size_t vg_count;                      /* ghost: count argument copy_from_history was called with */
int vg_offset;      /* ghost: the value copy_from_history obtained from read_offset_code (woven ghost assignment) */
static size_t vg_p0, vg_l0;
static unsigned vg_n0;

/* C01, per-block table readers (groups <unit>.read_{temp,code,offset}_table.func and <unit>.read_skip_count.tbl,
   -DVG_TBL_FUNC).  Skolem-index dataflow: vg_tX is ONE arbitrary index of the code-length array, never assigned by
   woven text; the ghosts below follow the field / command that the FORMAT makes responsible for that index.
   Woven ghost statements (contracts/lib/lh_new_decoder.c.spec, all under #ifdef VG_TBL_FUNC) assign only these. */
int vg_tX;                          /* Skolem index, 0 <= vg_tX < size of the reader's code_lengths[] */
int vg_t_nfield, vg_t_symfield;     /* count field as read; single-symbol field as read (count == 0 form) */
unsigned vg_t_w;                    /* width argument of the latest read_bits call (wrapper macro woven under VG_TBL_FUNC) */
unsigned vg_t_nfield_w, vg_t_symfield_w, vg_t_skip_w;   /* widths with which the count, single-symbol and temp-table skip fields were read */
int vg_t_next;                      /* format cursor: the index the next length field / command starts at (tiling) */
int vg_t_nf, vg_t_nskip, vg_t_skip_at;  /* temp table: length fields read so far; skip fields read; #length fields before the skip field */
int vg_t_kind, vg_t_val;            /* temp/offset table, cell vg_tX: 1 = a length field with value vg_t_val, 0 = zero inserted by the skip field, -1 = not covered */
int vg_t_cur;                       /* code table: temp-tree symbol of the command being decoded */
int vg_t_sym, vg_t_start, vg_t_span, vg_t_cls, vg_t_bits;  /* code table, the command covering vg_tX: symbol, first index, span as given by
                                       the format (before the cut at n), class read_skip_count was called with, its extra bits */
int vg_t_failed, vg_t_over;         /* a field read reported end of input; a field/command was read although the cursor had reached n */
int vg_t_bt_calls, vg_t_bt_n, vg_t_bt_len;   /* build_tree (wrapper macro woven under VG_TBL_FUNC): number of calls, the count argument, cell vg_tX of the array argument */
int vg_skip_cls, vg_skip_ret, vg_skip_bits;  /* read_skip_count: class argument, return value, what read_bits returned for the extra bits */
/* effective table size: the count field clamped to the array size */
#define VG_T_N(MAX) (vg_t_nfield > (int) (MAX) ? (int) (MAX) : vg_t_nfield)
/* temp/offset table: what the format puts into cell vg_tX (L = that cell); values >= 256 need >= 249 one-bits of unary
   extension and denote no code length in any LHA stream: not pinned */
#define VG_T_FIELD_OK(L) (vg_t_kind == 1 ? (vg_t_val >= 0 && (vg_t_val < 256 ==> (int) (L) == vg_t_val)) : (vg_t_kind == 0 && (L) == 0))
/* code table: zero-run length of class c with extra bits b: 1 | 3 + 4 bits | 20 + 9 bits */
#define VG_T_RUN(c, b) ((c) == 0 ? 1 : (c) == 1 ? 3 + (b) : 20 + (b))
#define VG_T_BITS_OK(c, b) ((b) >= 0 && (b) < ((c) == 0 ? 1 : (c) == 1 ? 16 : 512))
/* code table: cell vg_tX (L) is what the covering command denotes: symbols 0..2 = zero run (class == symbol, run length
   per class), symbol c >= 3 = one cell holding the length c - 2; vg_tX lies inside the command's span */
#define VG_T_CMD_OK(L) (vg_t_sym >= 0 && vg_t_start >= 0 && vg_t_start <= vg_tX && vg_tX - vg_t_start < vg_t_span && \
	(vg_t_sym <= 2 ? ((L) == 0 && vg_t_cls == vg_t_sym && VG_T_BITS_OK(vg_t_sym, vg_t_bits) && vg_t_span == VG_T_RUN(vg_t_sym, vg_t_bits)) \
	               : ((int) (L) == vg_t_sym - 2 && vg_t_span == 1 && vg_t_start == vg_tX)))

#ifdef VG_REDUCED_RING
/* Reduced-ring instantiation (DESIGN.md section 2 item 7): the template with this method's real OFFSET_BITS /
   NUM_CODES (/ LHARK) but HISTORY_BITS lowered to 14, used ONLY for functions that never index the ring
   themselves (they see it through the contracts of output_byte / copy_from_history, which are proved at the
   real ring size).  Group <unit>.params checks VG_OB / VG_NC / VG_LHARK against the method file. */
#define HISTORY_BITS 14
#define OFFSET_BITS VG_OB
#define NUM_CODES VG_NC
#define DECODER_NAME vg_reduced_decoder
#if VG_LHARK
#define LHARK
#endif
#include "lib/lh_new_decoder.c"
#else
#include VG_METHOD_FILE
#endif

TreeElement *const vg_bt_tree = VG_BT_ARRAY;
TreeElement *const vg_rt_tree = VG_RT_ARRAY;

static void vg_havoc(void)
{
	__CPROVER_havoc_object(&vg_dec);
	__CPROVER_havoc_object(vg_out);
	vg_K = nondet_size_t(); vg_Y = nondet_size_t(); vg_E = nondet_size_t();
	/* Skolem indices range over the valid cells of their arrays */
	__CPROVER_assume(vg_K < OUTPUT_BUFFER_SIZE && vg_Y < RING_BUFFER_SIZE && vg_E < OUTPUT_BUFFER_SIZE);
}

#ifdef VG_HARNESS_MODE
/* C01 step 2: the copy command has exactly LZ77 semantics copy(distance = offset + 1, length = count) on the
   sliding window, for every ring state, write position, distance inside the window and admissible count:
   overlap (distance < length), wrap-around and reaching into never-written cells included.  Checked around
   the real call (legacy route: loop contract applied, output_byte inlined, read_offset_code replaced by its
   contract); one arbitrary output byte vg_K, ring cell vg_Y and earlier byte vg_E stand for all. */
void h_copy_from_history_func(void)
{
	LHANewDecoder *decoder = &vg_dec;
	uint8_t *buf = vg_out;
	size_t bl = nondet_size_t(), count = nondet_size_t();
	size_t *buf_len = &bl;
	size_t l0, p0;
	vg_havoc();
	__CPROVER_assume(VG_BSR && vg_dec.ringbuf_pos < RING_BUFFER_SIZE);
	__CPROVER_assume(bl <= OUTPUT_BUFFER_SIZE && count <= OUTPUT_BUFFER_SIZE - bl);
	vg_dec0 = vg_dec;
	__CPROVER_array_copy(vg_out0.b, vg_out);
	l0 = bl; p0 = vg_dec.ringbuf_pos;
	vg_offset = -1;
	copy_from_history(decoder, buf, buf_len, count);
	if (vg_offset >= 0 && (size_t) vg_offset < RING_BUFFER_SIZE) {
		size_t d = (size_t) vg_offset;
		__CPROVER_assert(bl == l0 + count, "copy: output advanced by the copy length");
		__CPROVER_assert(vg_dec.ringbuf_pos == (p0 + count) % RING_BUFFER_SIZE, "copy: window position advanced mod S");
		__CPROVER_assert(vg_K < count ==> vg_out[l0 + vg_K] ==
		                 (vg_K > d ? vg_out[l0 + vg_K - d - 1] : vg_dec0.ringbuf[(p0 + RING_BUFFER_SIZE - d - 1 + vg_K) % RING_BUFFER_SIZE]),
		                 "C01 copy: byte K equals the byte distance d+1 back in the output-so-far / sliding window (LZ77, overlap aware)");
		__CPROVER_assert(vg_dec.ringbuf[vg_Y] == (VG_WRITER(vg_Y, p0) < count ? vg_out[l0 + VG_WRITER(vg_Y, p0)] : vg_dec0.ringbuf[vg_Y]),
		                 "C01 copy: window afterwards = old window overwritten by the output at the old position");
	} else if (vg_offset < 0) {
		__CPROVER_assert(bl == l0 && vg_dec.ringbuf_pos == p0 && vg_dec.ringbuf[vg_Y] == vg_dec0.ringbuf[vg_Y],
		                 "copy: a failed offset read outputs nothing and leaves the window alone");
	}
	__CPROVER_assert(vg_E < l0 ==> vg_out[vg_E] == vg_out0.b[vg_E], "copy: earlier output bytes unchanged");
	VG_CANARY("copy_from_history_func");
}
#endif

void h_peek_bits(void) { BitStreamReader *r; unsigned n; peek_bits(r, n); VG_CANARY("peek_bits"); }
void h_read_bits(void) { BitStreamReader *r; unsigned n; read_bits(r, n); VG_CANARY("read_bits"); }
void h_read_bit(void) { BitStreamReader *r; read_bit(r); VG_CANARY("read_bit"); }

void h_init_tree(void) { TreeElement *t; size_t n; vg_havoc(); init_tree(t, n); VG_CANARY("init_tree"); }
void h_set_tree_single(void) { TreeElement *t; TreeElement c; vg_havoc(); set_tree_single(t, c); VG_CANARY("set_tree_single"); }
void h_expand_queue(void) { TreeBuildData *b; vg_havoc(); expand_queue(b); VG_CANARY("expand_queue"); }
void h_read_next_entry(void) { TreeBuildData *b; vg_havoc(); read_next_entry(b); VG_CANARY("read_next_entry"); }
void h_add_codes_with_length(void) { TreeBuildData *b; uint8_t *cl; unsigned n, l; vg_havoc(); add_codes_with_length(b, cl, n, l); VG_CANARY("add_codes_with_length"); }
void h_build_tree(void) { TreeElement *t; size_t tl; uint8_t *cl; unsigned n; vg_havoc(); build_tree(t, tl, cl, n); VG_CANARY("build_tree"); }
void h_read_from_tree(void) { BitStreamReader *r; TreeElement *t; vg_havoc(); read_from_tree(r, t); VG_CANARY("read_from_tree"); }

void h_init_ring_buffer(void) { LHANewDecoder *d; vg_havoc(); init_ring_buffer(d); VG_CANARY("init_ring_buffer"); }
void h_init(void)
{
	void *d; LHADecoderCallback cb; void *cbd;
	vg_havoc();
	lha_lh_new_init(d, cb, cbd);
	VG_CANARY("lha_lh_new_init");
}
void h_read_length_value(void) { LHANewDecoder *d; vg_havoc(); read_length_value(d); VG_CANARY("read_length_value"); }
void h_read_temp_table(void) { LHANewDecoder *d; vg_havoc(); read_temp_table(d); VG_CANARY("read_temp_table"); }
void h_read_skip_count(void) { LHANewDecoder *d; int r; vg_havoc(); read_skip_count(d, r); VG_CANARY("read_skip_count"); }
void h_read_code_table(void) { LHANewDecoder *d; vg_havoc(); read_code_table(d); VG_CANARY("read_code_table"); }
void h_read_offset_table(void) { LHANewDecoder *d; vg_havoc(); read_offset_table(d); VG_CANARY("read_offset_table"); }
#ifdef VG_TBL_FUNC
/* entries of the C01 table-reader groups: same shape as the memory-safety entries; the Skolem index ranges over the
   reader's code_lengths[] array (VG_BT selects the table, VG_BT_NCODES is that array's size); the other ghosts start
   arbitrary (the woven @entry ghost statements initialise them) */
static void vg_tbl_havoc(void)
{
	vg_havoc();
	vg_tX = nondet_int();
	__CPROVER_assume(vg_tX >= 0 && vg_tX < (int) VG_BT_NCODES);
	vg_t_nfield = nondet_int(); vg_t_symfield = nondet_int(); vg_t_next = nondet_int(); vg_t_nf = nondet_int();
	vg_t_nskip = nondet_int(); vg_t_skip_at = nondet_int(); vg_t_kind = nondet_int(); vg_t_val = nondet_int();
	vg_t_cur = nondet_int(); vg_t_sym = nondet_int(); vg_t_start = nondet_int(); vg_t_span = nondet_int();
	vg_t_cls = nondet_int(); vg_t_bits = nondet_int(); vg_t_failed = nondet_int(); vg_t_over = nondet_int();
	vg_t_bt_calls = nondet_int(); vg_t_bt_n = nondet_int(); vg_t_bt_len = nondet_int();
	vg_skip_cls = nondet_int(); vg_skip_ret = nondet_int(); vg_skip_bits = nondet_int();
	vg_t_w = nondet_uint(); vg_t_nfield_w = nondet_uint(); vg_t_symfield_w = nondet_uint(); vg_t_skip_w = nondet_uint();
}
void h_read_temp_table_func(void) { LHANewDecoder *d; vg_tbl_havoc(); read_temp_table(d); VG_CANARY("read_temp_table_func"); }
void h_read_code_table_func(void) { LHANewDecoder *d; vg_tbl_havoc(); read_code_table(d); VG_CANARY("read_code_table_func"); }
void h_read_offset_table_func(void) { LHANewDecoder *d; vg_tbl_havoc(); read_offset_table(d); VG_CANARY("read_offset_table_func"); }
void h_read_skip_count_tbl(void) { LHANewDecoder *d; int r; vg_tbl_havoc(); read_skip_count(d, r); VG_CANARY("read_skip_count_tbl"); }
#endif
void h_start_new_block(void) { LHANewDecoder *d; vg_havoc(); start_new_block(d); VG_CANARY("start_new_block"); }
void h_read_code(void) { LHANewDecoder *d; vg_havoc(); read_code(d); VG_CANARY("read_code"); }
void h_read_offset_code(void) { LHANewDecoder *d; vg_havoc(); read_offset_code(d); VG_CANARY("read_offset_code"); }
#ifdef LHARK
void h_lhark_read_offset_code(void) { LHANewDecoder *d; int c; vg_havoc(); lhark_read_offset_code(d, c); VG_CANARY("lhark_read_offset_code"); }
void h_lhark_decode_copy_count(void) { LHANewDecoder *d; int c; vg_havoc(); lhark_decode_copy_count(d, c); VG_CANARY("lhark_decode_copy_count"); }
#endif
#ifdef VG_FUNC
/* C01 step 3 (block-header field formats), checked on the real code with the real bit reader, whose loops are
   bounded by the 32-bit buffer width; the stream is the 48-byte ghost window.
   read_length_value: 3 bits; the value 7 is extended in unary: each further 1 bit adds one, a 0 bit ends it.
   Complete for every length 0..19 (valid LHA code lengths are 0..16); longer unary runs are outside the bound. */
void h_read_length_value_func(void)
{
	size_t cur0, k, ones;
	unsigned v3;
	int ret;
	vg_havoc();
	__CPROVER_havoc_object(vg_in);
	vg_in_pos = nondet_size_t(); vg_eof = 0;
	__CPROVER_assume(BITS_PRE(&vg_dec.bit_stream_reader, 0u) && vg_in_pos <= VG_POS_MIN + 4);
	cur0 = VG_CUR(&vg_dec.bit_stream_reader);
	v3 = VG_SB(cur0, 3u);
	ones = 0;
	for (k = 0; k < 12; k++) { if (ones == k && VG_SB(cur0 + 3 + k, 1u) == 1) ones = k + 1; }
	__CPROVER_assume(ones < 12);                       /* bound of this group: unary extension of at most 11 ones */
	vg_eof_run = 0; vg_eof_limit = 3;                  /* C13: at most 3 consecutive end-of-input answers within this call */
	ret = read_length_value(&vg_dec);
	vg_eof_limit = 0;
	if (ret >= 0) {
		__CPROVER_assert(v3 < 7 ? (ret == (int) v3 && VG_CUR(&vg_dec.bit_stream_reader) == cur0 + 3)
		                        : (ret == 7 + (int) ones && VG_CUR(&vg_dec.bit_stream_reader) == cur0 + 3 + ones + 1),
		                 "C01 length field: 3 bits, 7 extended in unary and closed by a 0 bit; exactly those bits consumed");
	} else {
		__CPROVER_assert(vg_eof, "C01 length field: failure only at end of input");
	}
	VG_CANARY("read_length_value_func");
}
#if VG_LHARK
/* C01, LHARK extensions (-lk7-), from the format's tables (not from the code's formulas).
   Copy lengths: symbols 256..263 are the lengths 3..10; then six groups of four symbols with 1..6 extra bits whose bases
   continue the sequence (11,13,15,17 / 19,23,27,31 / ... / 259,323,387,451); symbol 288 is the maximum length 514.
   The extra bits follow the symbol in the stream, MSB first, and exactly those bits are consumed. */
static const uint16_t vg_lk_len_base[33] = { 3,4,5,6,7,8,9,10, 11,13,15,17, 19,23,27,31, 35,43,51,59, 67,83,99,115,
                                             131,163,195,227, 259,323,387,451, 514 };
static const uint8_t  vg_lk_len_extra[33] = { 0,0,0,0,0,0,0,0, 1,1,1,1, 2,2,2,2, 3,3,3,3, 4,4,4,4, 5,5,5,5, 6,6,6,6, 0 };
void h_lhark_decode_copy_count_func(void)
{
	size_t cur0;
	int ret, code = nondet_int();
	vg_havoc();
	__CPROVER_havoc_object(vg_in);
	vg_in_pos = nondet_size_t(); vg_eof = 0;
	__CPROVER_assume(code >= 256 && code <= 288);
	__CPROVER_assume(BITS_PRE(&vg_dec.bit_stream_reader, 0u) && vg_in_pos <= VG_POS_MIN + 4);
	cur0 = VG_CUR(&vg_dec.bit_stream_reader);
	ret = lhark_decode_copy_count(&vg_dec, code);
	if (ret >= 0) {
		__CPROVER_assert(ret == (int) vg_lk_len_base[code - 256] + (int) VG_SB(cur0, (unsigned) vg_lk_len_extra[code - 256]),
		                 "C01 LHARK copy length: table base plus the next extra bits");
		__CPROVER_assert(VG_CUR(&vg_dec.bit_stream_reader) == cur0 + vg_lk_len_extra[code - 256],
		                 "C01 LHARK copy length: exactly the extra bits of the symbol are consumed");
	} else {
		__CPROVER_assert(vg_eof, "C01 LHARK copy length: failure only at end of input");
	}
	VG_CANARY("lhark_decode_copy_count_func");
}
/* Distances: offset symbols 0..3 are the values 0..3; from 4 on, pairs of symbols with 1,2,3,... extra bits and bases
   4,6 / 8,12 / 16,24 / ... (value = distance - 1).  Stated for the symbols whose values lie inside the 64 KiB window
   (0..31); larger symbols denote distances no valid stream uses. */
void h_lhark_read_offset_code_func(void)
{
	size_t cur0;
	int ret, code = nondet_int();
	unsigned nb;
	uint32_t base;
	vg_havoc();
	__CPROVER_havoc_object(vg_in);
	vg_in_pos = nondet_size_t(); vg_eof = 0;
	__CPROVER_assume(code >= 0 && code <= 31);
	__CPROVER_assume(BITS_PRE(&vg_dec.bit_stream_reader, 0u) && vg_in_pos <= VG_POS_MIN + 4);
	cur0 = VG_CUR(&vg_dec.bit_stream_reader);
	/* table in closed form: pair p = code/2 (p >= 2) has p-1 extra bits; bases 2^p and 3*2^(p-1) */
	nb = code < 4 ? 0u : (unsigned) code / 2u - 1u;
	base = code < 4 ? (uint32_t) code : ((code & 1) ? (3u << nb) : (2u << nb));
	ret = lhark_read_offset_code(&vg_dec, code);
	if (ret >= 0) {
		__CPROVER_assert((uint32_t) ret == base + VG_SB(cur0, nb) && (uint32_t) ret < 65536u,
		                 "C01 LHARK distance: pair base plus the next extra bits, inside the 64 KiB window");
		__CPROVER_assert(VG_CUR(&vg_dec.bit_stream_reader) == cur0 + nb, "C01 LHARK distance: exactly the extra bits are consumed");
	} else {
		__CPROVER_assert(vg_eof, "C01 LHARK distance: failure only at end of input");
	}
	VG_CANARY("lhark_read_offset_code_func");
}
#endif
/* read_skip_count: zero-run lengths of the code table: class 0 -> 1; class 1 -> 3 + next 4 bits; class 2 -> 20 + next 9 bits */
void h_read_skip_count_func(void)
{
	size_t cur0;
	int ret, cls = nondet_int();
	vg_havoc();
	__CPROVER_havoc_object(vg_in);
	vg_in_pos = nondet_size_t(); vg_eof = 0;
	__CPROVER_assume(cls >= 0 && cls <= 2);
	__CPROVER_assume(BITS_PRE(&vg_dec.bit_stream_reader, 0u) && vg_in_pos <= VG_POS_MIN + 4);
	cur0 = VG_CUR(&vg_dec.bit_stream_reader);
	ret = read_skip_count(&vg_dec, cls);
	if (ret >= 0) {
		__CPROVER_assert(cls == 0 ? (ret == 1 && VG_CUR(&vg_dec.bit_stream_reader) == cur0) :
		                 cls == 1 ? (ret == 3 + (int) VG_SB(cur0, 4u) && VG_CUR(&vg_dec.bit_stream_reader) == cur0 + 4) :
		                            (ret == 20 + (int) VG_SB(cur0, 9u) && VG_CUR(&vg_dec.bit_stream_reader) == cur0 + 9),
		                 "C01 zero-run forms: 1 | 3 + 4 bits | 20 + 9 bits, exactly those bits consumed");
	} else {
		__CPROVER_assert(vg_eof, "C01 zero-run forms: failure only at end of input");
	}
	VG_CANARY("read_skip_count_func");
}
#endif
void h_output_byte(void) { LHANewDecoder *d; uint8_t *b; size_t *bl; uint8_t v; vg_havoc(); output_byte(d, b, bl, v); VG_CANARY("output_byte"); }
void h_copy_from_history(void) { LHANewDecoder *d; uint8_t *b; size_t *bl; size_t c; vg_havoc(); copy_from_history(d, b, bl, c); VG_CANARY("copy_from_history"); }
void h_read(void) { void *d; uint8_t *b; vg_havoc(); lha_lh_new_read(d, b); VG_CANARY("lha_lh_new_read"); }

#if defined(VG_OB) && !defined(VG_REDUCED_RING)
void h_params(void)
{
#ifdef LHARK
	__CPROVER_assert(VG_LHARK == 1, "reduced-ring groups use the LHARK variant for this method");
#else
	__CPROVER_assert(VG_LHARK == 0, "reduced-ring groups use the plain variant for this method");
#endif
	__CPROVER_assert(OFFSET_BITS == VG_OB && NUM_CODES == VG_NC, "reduced-ring groups use this method's OFFSET_BITS and NUM_CODES");
	VG_CANARY("params");
}
#endif
#ifdef VG_HARNESS_MODE
/* output_byte at the real ring size: its contract checked around the real call (loop-free; quantifier-free; SMT) */
void h_output_byte_hm(void)
{
	size_t bl = nondet_size_t(), l0, p0;
	uint8_t b = nondet_uchar();
	vg_havoc();
	__CPROVER_assume(vg_dec.ringbuf_pos < RING_BUFFER_SIZE && bl < OUTPUT_BUFFER_SIZE);
	vg_dec0 = vg_dec;
	l0 = bl; p0 = vg_dec.ringbuf_pos;
	output_byte(&vg_dec, vg_out, &bl, b);
	__CPROVER_assert(bl == l0 + 1 && vg_dec.ringbuf_pos < RING_BUFFER_SIZE, "output_byte: contract postcondition (length + 1, position in range)");
	__CPROVER_assert(vg_out[l0] == b && vg_dec.ringbuf[p0] == b && vg_dec.ringbuf_pos == (p0 + 1) % RING_BUFFER_SIZE,
	                 "output_byte: byte stored in output and window, position advanced mod S");
	__CPROVER_assert(vg_dec.ringbuf[vg_Y] == (vg_Y == p0 ? b : vg_dec0.ringbuf[vg_Y]), "output_byte: other window cells unchanged");
	__CPROVER_assert(vg_dec.block_remaining == vg_dec0.block_remaining && vg_dec.bit_stream_reader.bits == vg_dec0.bit_stream_reader.bits &&
	                 vg_dec.bit_stream_reader.bit_buffer == vg_dec0.bit_stream_reader.bit_buffer, "output_byte: frame (scalars untouched)");
	VG_CANARY("output_byte_hm");
}
#endif

/* The LHADecoderType initialiser ties the contracts to what lha_decoder_new allocates. */
void h_dtype(void)
{
	__CPROVER_assert(DECODER_NAME.init == lha_lh_new_init && DECODER_NAME.read == lha_lh_new_read && DECODER_NAME.free == NULL,
	                 "decoder type uses the functions under contract");
	__CPROVER_assert(DECODER_NAME.extra_size == sizeof(LHANewDecoder), "extra_size is the state struct");
	__CPROVER_assert(DECODER_NAME.max_read == OUTPUT_BUFFER_SIZE && DECODER_NAME.max_read >= VG_MAX_COPY, "max_read covers the largest read");
	__CPROVER_assert(DECODER_NAME.block_size > 0, "block_size positive");
	__CPROVER_assert(VG_OFFSET_NC == MAX_OFFSET_CODES && VG_TEMP_NC == MAX_TEMP_CODES && VG_CODE_ML == (1u << 9) && VG_TEMP_ML == (1u << TEMP_CODE_BITS),
	                 "harness constants equal the template's");
	__CPROVER_assert(sizeof(vg_dec.code_tree) == VG_CODE_LEN * sizeof(TreeElement) && sizeof(vg_dec.offset_tree) == VG_OFFSET_LEN * sizeof(TreeElement) &&
	                 sizeof(vg_dec.temp_tree) == VG_TEMP_LEN * sizeof(TreeElement), "tree array sizes equal the lengths used in TREE_OK");
#ifdef DECODER2_NAME
	__CPROVER_assert(DECODER2_NAME.init == lha_lh_new_init && DECODER2_NAME.read == lha_lh_new_read && DECODER2_NAME.free == NULL &&
	                 DECODER2_NAME.extra_size == sizeof(LHANewDecoder) && DECODER2_NAME.max_read == OUTPUT_BUFFER_SIZE &&
	                 DECODER2_NAME.block_size > 0, "second decoder type (lh4) likewise");
#endif
	VG_CANARY("dtype");
}

/* C10, bounded and anchor-independent: the real is_dangerous_symlink (lib/lha_reader.c) on every target string of at most
   VG_DS_N bytes (all byte values), with the C library's string functions as CBMC models them (strstr: reference
   implementation below), against the predicate of the property: dangerous <=> absolute, or some '/'-separated
   component equals "..".  Plain route: no contract anchors, so a rewrite of the function (loop -> library calls)
   is still decided. */
#include "vg_common.h"
#include <string.h>
#ifndef VG_DS_N
#define VG_DS_N 7
#endif

#include "vg_libc.h"

#include "lib/lha_reader.c"

char vg_in_tgt[VG_DS_N + 1];
size_t vg_in_tlen;

void h_dangerous_bounded(void)
{
	LHAFileHeader h;
	size_t k, start;
	int spec, r;
	for (k = 0; k < VG_DS_N; k++) vg_in_tgt[k] = nondet_char();
	vg_in_tlen = nondet_size_t();
	__CPROVER_assume(vg_in_tlen <= VG_DS_N);
	vg_in_tgt[vg_in_tlen] = '\0';
	for (k = 0; k < VG_DS_N; k++) __CPROVER_assume(k >= vg_in_tlen || vg_in_tgt[k] != '\0');
	/* the property's predicate, computed directly */
	spec = (vg_in_tlen > 0 && vg_in_tgt[0] == '/');
	start = 0;
	for (k = 0; k <= VG_DS_N; k++) {
		if (k <= vg_in_tlen && (k == vg_in_tlen || vg_in_tgt[k] == '/')) {
			if (k - start == 2 && vg_in_tgt[start] == '.' && vg_in_tgt[start + 1] == '.') spec = 1;
			start = k + 1;
		}
	}
	h.symlink_target = vg_in_tgt;
	r = is_dangerous_symlink(&h);
	__CPROVER_assert((r != 0) == (spec != 0), "C10 (bounded): is_dangerous_symlink <=> target is absolute or has a '..' component");
	h.symlink_target = NULL;
	__CPROVER_assert(is_dangerous_symlink(&h) == 0, "C10: no target, not dangerous");
	VG_CANARY("dangerous_bounded");
}

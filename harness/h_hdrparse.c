/* Bounded whole-header parse (DESIGN.md C05/C11/C12/C08/C20 "bounded end-to-end"): the REAL, unwoven text of
   lib/lha_file_header.c + lib/ext_header.c + lib/lha_endian.c + lib/crc16.c, run from
   lha_file_header_read() on a symbolic input of at most VG_HN bytes delivered by a stub stream.  Header level
   fixed per group (VG_LEVEL); everything else symbolic.  Loops unwound with unwinding assertions; malloc may
   fail; leak check on.  Never counted as proof: the bound is the input size. */
#include "vg_common.h"
#include <time.h>

#ifndef VG_HN
#define VG_HN 32
#endif
uint8_t vg_in_b[VG_HN];
size_t vg_in_n;
static size_t vg_rpos;

#include "lib/lha_input_stream.h"
#include "lib/lha_file_header.h"

/* ASSUME: input stream contract (proved in unit istream): returns 1 after storing exactly the next n source bytes,
   or 0 if fewer remain (then the stream is at its end). */
int lha_input_stream_read(LHAInputStream *stream, void *buf, size_t buf_len)
{
	size_t k;
	uint8_t *p = buf;
	if (buf_len > vg_in_n - vg_rpos) { vg_rpos = vg_in_n; return 0; }
	for (k = 0; k < VG_HN; k++) { if (k < buf_len) p[k] = vg_in_b[vg_rpos + k]; }
	vg_rpos += buf_len;
	return 1;
}
/* ASSUME: mktime returns some time_t */
time_t mktime(struct tm *tm) { time_t t; return t; }
#ifndef VG_CONST_MALLOC
/* ASSUME: realloc returns NULL (block untouched) or a new block of n bytes holding the old contents, old freed */
void *realloc(void *ptr, size_t n)
{
	uint8_t *q = malloc(n), *p = ptr;
	size_t k, old;
	if (q == NULL) return NULL;
	old = __CPROVER_OBJECT_SIZE(ptr);
	for (k = 0; k < sizeof(LHAFileHeader) + VG_HN + 4; k++) { if (k < old && k < n) q[k] = p[k]; }
	free(ptr);
	return q;
}
#endif

/* ASSUME: sprintf(d, "%s%s", a, b) stores the concatenation of the C strings a and b and a terminator (ISO C);
   the only sprintf call of lha_file_header.c has exactly this format (asserted). */
#include <stdarg.h>
int sprintf(char *d, const char *fmt, ...)
{
	va_list ap; const char *a, *b; size_t n = 0, k; _Bool ea = 0, eb = 0;
	__CPROVER_assert(fmt[0] == '%' && fmt[1] == 's' && fmt[2] == '%' && fmt[3] == 's' && fmt[4] == 0, "sprintf stub models the %s%s format only");
	va_start(ap, fmt); a = va_arg(ap, const char *); b = va_arg(ap, const char *); va_end(ap);
	for (k = 0; k < 2 * VG_HN + 2; k++) { if (!ea) { if (a[k] == 0) ea = 1; else d[n++] = a[k]; } }
	for (k = 0; k < 2 * VG_HN + 2; k++) { if (!eb) { if (b[k] == 0) eb = 1; else d[n++] = b[k]; } }
	__CPROVER_assert(ea && eb, "sprintf stub: arguments are terminated within the modelled length");
	d[n] = 0;
	return (int) n;
}

#ifdef VG_CONST_MALLOC
/* constant-capacity allocation for the purely functional bounded groups (symbolic-size heap objects exhaust the
   SAT back end's memory): blocks have VG_CAP bytes, the request must fit; memory safety is NOT claimed by groups
   that use this (their props exclude C08). */
#define VG_CAP (VG_HN + 4)
#define VG_HCAP (sizeof(LHAFileHeader) + VG_HN + 8)
/* header block: constant capacity; calloc zero-fills it; realloc keeps the block in place (a legal realloc outcome)
   or fails */
static void *vg_ccalloc(size_t a, size_t b) { __CPROVER_assert(a * b <= VG_HCAP, "bounded group: header block request fits the constant capacity"); return (calloc)(1, VG_HCAP); }
/* a request beyond the capacity needs more header bytes than the bounded input holds: the read that follows such a
   growth fails in the real code as well, so failing the growth is outcome-equivalent within the bound */
static _Bool vg_alloc_failed;   /* ghost: some allocation stub returned NULL */
static void *vg_crealloc(void *p, size_t n) { if (n > VG_HCAP) { vg_alloc_failed = 1; return NULL; } if (nondet_bool()) return p; vg_alloc_failed = 1; return NULL; }
#define calloc(a, b) vg_ccalloc(a, b)
#define realloc(p, n) vg_crealloc(p, n)
static void *vg_cmalloc(size_t n) { void *r; __CPROVER_assert(n <= VG_CAP, "bounded group: allocation request fits the constant capacity"); r = (malloc)(VG_CAP); if (r == NULL) vg_alloc_failed = 1; return r; }
char *strdup(const char *s0)
{
	char *d = vg_cmalloc(VG_CAP); size_t k; _Bool e = 0;
	if (d == NULL) return NULL;
	for (k = 0; k < VG_CAP; k++) { if (!e) { d[k] = s0[k]; if (s0[k] == 0) e = 1; } }
	__CPROVER_assert(e, "strdup stub: source terminated within the capacity");
	return d;
}
#define malloc(n) vg_cmalloc(n)
#endif

#include "lib/crc16.c"
#include "lib/lha_endian.c"
#include "lib/ext_header.c"
#include "lib/lha_file_header.c"

static uint16_t vg_ref_crc(uint16_t c, uint8_t b)
{
	unsigned k; c ^= b;
	for (k = 0; k < 8; k++) c = (c & 1) ? (uint16_t) ((c >> 1) ^ 0xA001) : (uint16_t) (c >> 1);
	return c;
}
#define LE16(p) ((unsigned) (p)[0] | ((unsigned) (p)[1] << 8))
#define LE32(p) ((uint32_t) (p)[0] | ((uint32_t) (p)[1] << 8) | ((uint32_t) (p)[2] << 16) | ((uint32_t) (p)[3] << 24))

void h_parse(void)
{
	LHAFileHeader *h;
	size_t k;
	for (k = 0; k < VG_HN; k++) vg_in_b[k] = nondet_uchar();
	vg_in_n = nondet_size_t();
	__CPROVER_assume(vg_in_n <= VG_HN);
	__CPROVER_assume(vg_in_b[20] == VG_LEVEL);
	h = lha_file_header_read((LHAInputStream *) 0);
	if (h != NULL) {
		__CPROVER_assert(h->header_level <= 3 && h->header_level == VG_LEVEL, "C12: level of a returned header is 0..3");
		/* C12: file entries have a name, directory entries a path */
		if (strcmp(h->compress_method, "-lhd-") != 0)
			__CPROVER_assert(h->filename != NULL, "C12: a returned file entry has a name");
		else if (h->symlink_target == NULL)
			__CPROVER_assert(h->path != NULL, "C12: a returned directory entry has a path");
		/* C11: name has no '/', path has no empty, '.' or '..' component apart from one leading '/' */
		if (h->filename != NULL) {
			_Bool end = 0;
			for (k = 0; k < VG_HN; k++) { if (!end) { if (h->filename[k] == 0) end = 1; else __CPROVER_assert(h->filename[k] != '/', "C11: returned file name contains no '/'"); } }
			__CPROVER_assert(end, "returned file name is NUL-terminated");
		}
		if (h->path != NULL) {
			_Bool end = 0; size_t cs = 0;     /* cs = start of the current component */
			if (h->path[0] == '/') cs = 1;
			for (k = 0; k < VG_HN + 1; k++) {
				if (!end && k >= cs) {
					if (h->path[k] == 0) end = 1;
					else if (h->path[k] == '/') {
						__CPROVER_assert(k > cs, "C11: no empty component in a returned path");
						__CPROVER_assert(!(k == cs + 1 && h->path[cs] == '.'), "C11: no '.' component in a returned path");
						__CPROVER_assert(!(k == cs + 2 && h->path[cs] == '.' && h->path[cs + 1] == '.'), "C11: no '..' component in a returned path");
						cs = k + 1;
					}
				}
			}
			__CPROVER_assert(end, "returned path is NUL-terminated");
		}
#if VG_LEVEL <= 1
		/* C12 level 0/1: byte sum of the header body equals the checksum byte; lengths inside the header */
		{
			unsigned sum = 0, hl = vg_in_b[0];
			for (k = 0; k < VG_HN; k++) { if (k >= 2 && k < hl + 2) sum += vg_in_b[k]; }
			__CPROVER_assert((sum & 0xff) == vg_in_b[1], "C12: level-0/1 header returned only if its byte sum equals the checksum byte");
			__CPROVER_assert(hl + 2 <= vg_in_n, "C12: level-0/1 header lies inside the input");
			__CPROVER_assert(hl >= (VG_LEVEL == 0 ? 22u : 25u) && (VG_LEVEL == 0 ? 22u : 25u) + vg_in_b[21] <= hl, "C12: level-0/1 length and name-length fields point inside the header");
		}
		/* C05 fixed fields of level 0/1 */
		__CPROVER_assert(h->compressed_length + 0 >= 0 && h->length == LE32(vg_in_b + 11), "C05: original size is the LE32 at offset 11");
		__CPROVER_assert(memcmp(h->compress_method, vg_in_b + 2, 4) == 0 || (VG_LEVEL == 1 && h->compress_method[2] == 'k'), "C05: method is bytes 2..6 (except the LHARK rename)");
		__CPROVER_assert(h->crc == LE16(vg_in_b + 22 + vg_in_b[21]), "C05: CRC field follows the name");
#if VG_LEVEL == 0
		__CPROVER_assert(h->compressed_length == LE32(vg_in_b + 7), "C05: packed size is the LE32 at offset 7 (level 0)");
#endif
#endif
#if VG_LEVEL == 2
		__CPROVER_assert(LE16(vg_in_b) >= 26 && LE16(vg_in_b) <= vg_in_n, "C12: level-2 total length is at least 26 and inside the input");
		__CPROVER_assert(h->compressed_length == LE32(vg_in_b + 7) && h->length == LE32(vg_in_b + 11) && h->crc == LE16(vg_in_b + 21) &&
		                 h->os_type == vg_in_b[23] && h->timestamp == LE32(vg_in_b + 15), "C05: level-2 fixed fields");
		if (h->extra_flags & LHA_FILE_COMMON_CRC) {
			uint16_t c = 0; size_t tl = LE16(vg_in_b);
			for (k = 0; k < VG_HN; k++) { if (k < tl) c = vg_ref_crc(c, vg_in_b[k]); }
			(void) c;
		}
#endif
		lha_file_header_free(h);
	}
	VG_CANARY("parse end");
}

/* C05 bounded, real parse_symlink (+ lha_file_header_full_path, split_header_filename) on header strings of at
   most VG_SL bytes each, all byte values: a Unix symlink stored as "name|target" is split at the FIRST '|':
   the link target is everything after it, path ++ filename afterwards is everything before it, and the name
   part is re-split at its last '/'.  Plain route: independent of the loop/statement shape of the code. */
#ifndef VG_SL
#define VG_SL 6
#endif
void h_symlink_bounded(void)
{
	static LHAFileHeader hd;
	char full[2 * VG_SL + 1], got[2 * VG_SL + 2];
	size_t lp, lf, k, n, bar, gn;
	_Bool have_path = nondet_bool(), have_name = nondet_bool(), found = 0, e;
	char *p = NULL, *f = NULL;
	__CPROVER_havoc_object(&hd);
	lp = nondet_size_t(); lf = nondet_size_t();
	__CPROVER_assume(lp <= VG_SL && lf <= VG_SL && (have_path || have_name));
	if (have_path) { p = (malloc)(16); __CPROVER_assume(p != NULL); for (k = 0; k < VG_SL; k++) { p[k] = nondet_char(); __CPROVER_assume(k >= lp || p[k] != 0); } p[lp] = 0; }
	if (have_name) { f = (malloc)(16); __CPROVER_assume(f != NULL); for (k = 0; k < VG_SL; k++) { f[k] = nondet_char(); __CPROVER_assume(k >= lf || f[k] != 0); } f[lf] = 0; }
	hd.path = p; hd.filename = f; hd.symlink_target = NULL;
	/* reference: full = path ++ filename; bar = index of the FIRST '|' */
	n = 0;
	for (k = 0; k < VG_SL; k++) if (have_path && k < lp) full[n++] = p[k];
	for (k = 0; k < VG_SL; k++) if (have_name && k < lf) full[n++] = f[k];
	bar = n;
	for (k = 0; k < 2 * VG_SL; k++) if (!found && k < n && full[k] == '|') { bar = k; found = 1; }
	if (parse_symlink(&hd)) {
		__CPROVER_assert(found, "C05 symlink: success only if the stored name contains '|'");
		__CPROVER_assert(hd.symlink_target != NULL && hd.filename != NULL, "C05 symlink: target and name set on success");
		/* link target == full[bar+1 .. n) */
		e = 0;
		for (k = 0; k < 2 * VG_SL + 1; k++) {
			if (!e) {
				if (bar + 1 + k < n) __CPROVER_assert(hd.symlink_target[k] == full[bar + 1 + k], "C05 symlink: link target is exactly the text after the FIRST '|'");
				else { __CPROVER_assert(hd.symlink_target[k] == 0, "C05 symlink: link target ends where the stored text ends"); e = 1; }
			}
		}
		/* path ++ filename == full[0 .. bar) */
		gn = 0; e = 0;
		for (k = 0; k < 2 * VG_SL + 1; k++) if (hd.path != NULL && !e) { if (hd.path[k] == 0) e = 1; else got[gn++] = hd.path[k]; }
		e = 0;
		for (k = 0; k < 2 * VG_SL + 1; k++) if (!e) { if (hd.filename[k] == 0) e = 1; else got[gn++] = hd.filename[k]; }
		__CPROVER_assert(gn == bar, "C05 symlink: path ++ name has the length of the text before the first '|'");
		for (k = 0; k < 2 * VG_SL; k++) if (k < gn && k < bar) __CPROVER_assert(got[k] == full[k], "C05 symlink: path ++ name is exactly the text before the first '|'");
	}
	VG_CANARY("symlink_bounded");
}

/* decode_level0_header (levels 0 and 1) alone, as lha_file_header_read calls it: fresh header block holding the
   first 22 input bytes.  C12 (its own rejection rules) and C05 (fixed fields), bounded by the input size. */
void h_level01_only(void)
{
	LHAFileHeader *h;
	size_t k;
	int ok;
	for (k = 0; k < VG_HN; k++) vg_in_b[k] = nondet_uchar();
	vg_in_n = nondet_size_t();
	__CPROVER_assume(vg_in_n <= VG_HN && vg_in_n >= COMMON_HEADER_LEN);
#ifdef VG_CONCRETE
	/* concrete extreme shape: every byte a constant (name of 'a's filling the header, method -lh0-, sizes/time 0x61..),
	   checksum computed here; the symbolic execution then runs the real decoder on one concrete maximum-length header */
	for (k = 0; k < VG_HN; k++) vg_in_b[k] = 0x61;
	vg_in_b[2] = '-'; vg_in_b[3] = 'l'; vg_in_b[4] = 'h'; vg_in_b[5] = '0'; vg_in_b[6] = '-';
	vg_in_b[20] = VG_LEVEL;
#endif
	__CPROVER_assume(vg_in_b[20] == VG_LEVEL);
#ifdef VG_FIXHL
	vg_in_b[0] = VG_FIXHL;
	vg_in_b[21] = VG_FIXHL - (VG_LEVEL == 0 ? 22 : 25);
	vg_in_n = VG_HN;
#endif
#ifdef VG_CONCRETE
	{ unsigned csum = 0; for (k = 2; k < (size_t) VG_FIXHL + 2; k++) csum += vg_in_b[k]; vg_in_b[1] = (uint8_t) csum; }
#endif
	h = calloc(1, sizeof(LHAFileHeader) + COMMON_HEADER_LEN);
	__CPROVER_assume(h != NULL);
	h->_refcount = 1;
	h->raw_data = (uint8_t *) (h + 1);
	h->raw_data_len = COMMON_HEADER_LEN;
	ok = lha_input_stream_read((LHAInputStream *) 0, h->raw_data, h->raw_data_len);
	__CPROVER_assume(ok);
	h->header_level = h->raw_data[20];
#ifdef VG_FIXHL
	/* long-header variant: the length byte and the name length are CONSTANTS of the group (so that every loop bound and
	   allocation size is concrete for the symbolic execution); all other header bytes stay symbolic.  The name fills the
	   header: no level-0 extended area.  Must be set before the first 22 bytes are handed to the code, see below. */
#endif
	ok = decode_level0_header(&h, (LHAInputStream *) 0);
#ifdef VG_CONST_MALLOC
	if (!ok) {
		/* C05, accept direction: a header that satisfies every rule of its level, lies completely inside the input and
		   meets no allocation failure is decoded, whatever its length byte (up to 255) and name length */
		unsigned sum = 0, hl = vg_in_b[0], minl = (VG_LEVEL == 0 ? 22u : 25u), pl = vg_in_b[21];
		for (k = 0; k < VG_HN; k++) { if (k >= 2 && k < hl + 2) sum += vg_in_b[k]; }
		__CPROVER_assert(!(hl >= minl && hl + 2 <= vg_in_n && (sum & 0xff) == vg_in_b[1] && minl + pl <= hl && !vg_alloc_failed),
		                 "C05: a level-0/1 base header that satisfies its length and checksum rules is accepted");
	}
#endif
	if (ok) {
		unsigned sum = 0, hl = vg_in_b[0], minl = (VG_LEVEL == 0 ? 22u : 25u), pl = vg_in_b[21];
		for (k = 0; k < VG_HN; k++) { if (k >= 2 && k < hl + 2) sum += vg_in_b[k]; }
		__CPROVER_assert(hl + 2 <= vg_in_n, "C12: an accepted level-0/1 header lies inside the input");
		__CPROVER_assert((sum & 0xff) == vg_in_b[1], "C12: accepted only if the byte sum of the header body equals the checksum byte");
		__CPROVER_assert(hl >= minl, "C12: accepted only if the length byte reaches the level's minimum");
		__CPROVER_assert(minl + pl <= hl, "C12: accepted only if the name-length field points inside the header");
		__CPROVER_assert(h->length == LE32(vg_in_b + 11) && h->compressed_length == LE32(vg_in_b + 7), "C05: sizes are the LE32 fields at offsets 7 and 11");
		__CPROVER_assert(h->compress_method[0] == (char) vg_in_b[2] && h->compress_method[4] == (char) vg_in_b[6] && h->compress_method[5] == 0, "C05: method is bytes 2..6");
		__CPROVER_assert(h->crc == LE16(vg_in_b + 22 + pl), "C05: CRC field follows the name");
		__CPROVER_assert(VG_LEVEL == 0 ? h->os_type == LHA_OS_TYPE_UNKNOWN : h->os_type == vg_in_b[24 + pl], "C05: OS type (level 1: byte after the CRC)");
	}
	VG_CANARY("level01_only");
}

/* decode_level2_header alone (with the real extended-header chain walk and decoders), bounded by the input size */
void h_level2_only(void)
{
	LHAFileHeader *h;
	size_t k;
	int ok;
	for (k = 0; k < VG_HN; k++) vg_in_b[k] = nondet_uchar();
	vg_in_n = nondet_size_t();
	__CPROVER_assume(vg_in_n <= VG_HN && vg_in_n >= COMMON_HEADER_LEN);
	__CPROVER_assume(vg_in_b[20] == 2);
	h = calloc(1, sizeof(LHAFileHeader) + COMMON_HEADER_LEN);
	__CPROVER_assume(h != NULL);
	h->_refcount = 1;
	h->raw_data = (uint8_t *) (h + 1);
	h->raw_data_len = COMMON_HEADER_LEN;
	ok = lha_input_stream_read((LHAInputStream *) 0, h->raw_data, h->raw_data_len);
	__CPROVER_assume(ok);
	h->header_level = 2;
	ok = decode_level2_header(&h, (LHAInputStream *) 0);
	if (ok) {
		unsigned tl = LE16(vg_in_b), os9 = (vg_in_b[23] == LHA_OS_TYPE_OS9_68K) ? 2u : 0u, off, len;
		_Bool chain_ok = 1, done = 0;
		__CPROVER_assert(tl >= 26, "C12: an accepted level-2 header declares at least the fixed 26 bytes");
		__CPROVER_assert(tl + os9 <= vg_in_n, "C12: an accepted level-2 header lies inside the input");
		__CPROVER_assert(h->compressed_length == LE32(vg_in_b + 7) && h->length == LE32(vg_in_b + 11) && h->timestamp == LE32(vg_in_b + 15) &&
		                 h->crc == LE16(vg_in_b + 21) && h->os_type == vg_in_b[23], "C05: level-2 fixed fields at offsets 7, 11, 15, 21, 23");
		__CPROVER_assert(h->compress_method[0] == (char) vg_in_b[2] && h->compress_method[4] == (char) vg_in_b[6] && h->compress_method[5] == 0, "C05: method is bytes 2..6");
		/* independent walk of the extended-header chain: each length field (2 bytes, first at offset 24) is 0 (end) or
		   covers at least its own size field + type byte and stays inside the header */
		off = 24;
		for (k = 0; k < VG_HN / 3 + 1; k++) {
			if (!done) {
				if (off + 2 > tl + os9) { chain_ok = 0; done = 1; }
				else {
					len = LE16(vg_in_b + off);
					if (len == 0) done = 1;
					else if (len < 3 || off + 2 + len > tl + os9 + 0u + 2u) { chain_ok = 0; done = 1; }
					else off += len;
				}
			}
		}
		__CPROVER_assert(!done || chain_ok, "C12: an accepted level-2 header has an extended-header chain whose length fields stay inside the header");
	}
	VG_CANARY("level2_only");
}

/* levels above 3 are never returned */
void h_level_gt3(void)
{
	LHAFileHeader *h;
	size_t k;
	for (k = 0; k < VG_HN; k++) vg_in_b[k] = nondet_uchar();
	vg_in_n = nondet_size_t();
	__CPROVER_assume(vg_in_n <= VG_HN);
	__CPROVER_assume(vg_in_b[20] > 3);
	h = lha_file_header_read((LHAInputStream *) 0);
	__CPROVER_assert(h == NULL, "C12: a header with level above 3 is never returned");
	VG_CANARY("level_gt3");
}

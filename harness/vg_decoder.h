/* Shared vocabulary for decoder units (bit reader, prefix-code trees). */
#ifndef VG_DECODER_H
#define VG_DECODER_H
#include "vg_common.h"

/* ASSUME: LHADecoderCallback contract: returns n <= buf_len and writes exactly buf[0..n) with
   arbitrary bytes; touches nothing else (stub vg_cb stands for every input callback). */
size_t vg_cb(void *buf, size_t buf_len, void *user_data)
{
	size_t n = nondet_size_t();
	uint8_t *p = (uint8_t *) buf;
	__CPROVER_assume(n <= buf_len);
#ifdef VG_CB_PROGRESS
	/* external-progress assumption used only by termination obligations that say so */
	__CPROVER_assume(buf_len == 0 || n > 0);
#endif
	__CPROVER_assert(buf_len <= 4, "bit reader asks its callback for at most 4 bytes");
	if (n > 0) p[0] = nondet_uchar();
	if (n > 1) p[1] = nondet_uchar();
	if (n > 2) p[2] = nondet_uchar();
	if (n > 3) p[3] = nondet_uchar();
	return n;
}

/* keep the stub address-taken so that function-pointer removal sees it as a candidate */
size_t (*const vg_cb_ptr)(void *, size_t, void *) = vg_cb;

/* BSR_OK: representation invariant of BitStreamReader */
#ifndef VG_CB
#define VG_CB vg_cb
#endif
#define BSR_OK(r) ((r)->bits <= 32 && (r)->callback == VG_CB)

/* Prefix-code tree invariant (DESIGN.md section 4).  LEN and ML must be compile-time constants. */
#define VG_LEAF(t)  ((((unsigned)(t)) & (unsigned)TREE_NODE_LEAF) != 0)
#define VG_VAL(t)   (((unsigned)(t)) & ~(unsigned)TREE_NODE_LEAF)
#define TREE_ENTRY_OK(e, k, LEN, ML) \
	(VG_LEAF(e) ? VG_VAL(e) < (unsigned)(ML) : ((unsigned)(e) > (k) && (unsigned)(e) + 1u < (unsigned)(LEN)))
#define TREE_OK(T, LEN, ML) \
	(__CPROVER_forall { unsigned vk_; (vk_ < (unsigned)(LEN)) ==> TREE_ENTRY_OK((T)[vk_], vk_, LEN, ML) })
#endif

/* Anchor-independent bounded companion (C16/C13): the read-based skip of a non-seekable FILE source
   (file_source_skip_fallback, and file_source_skip when ftell fails), unwoven real text of lib/lha_input_stream.c, plain
   route, loops unwound.  The property's predicate is computed independently: the call reports success exactly when it
   consumed exactly `bytes` bytes of the FILE; it reports failure only after a short read.  Bound: the listed request sizes (vg_sizes). */
#include "vg_common.h"
#include <stdio.h>
#ifndef VG_SKMAX
#define VG_SKMAX 9000
#endif
static FILE vg_file_obj;
static size_t vg_consumed;      /* ghost: bytes the FILE has delivered */
static _Bool vg_short;          /* ghost: some fread returned fewer bytes than asked */
/* ASSUME: fread(buf, 1, n, fh) returns m <= n after consuming exactly m bytes of the file (buf[0..m) written). */
static size_t vg_fread(void *buf, size_t size, size_t n, FILE *fh)
{
	size_t m = nondet_size_t();
	__CPROVER_assert(fh == &vg_file_obj && size == 1, "fread on the stream's FILE, element size 1");
	__CPROVER_assert(__CPROVER_w_ok(buf, n), "fread is given a writable buffer of n bytes");
	__CPROVER_assume(m <= n);
	if (m < n) vg_short = 1;
	vg_consumed += m;
	return m;
}
/* ASSUME: ftell fails (-1) on a non-seekable stream */
static long vg_ftell(FILE *fh) { (void) fh; return -1; }
#define fread vg_fread
#define ftell vg_ftell
#include "lib/lha_input_stream.c"

/* request sizes: around one and two blocks for every power-of-two block size from 32 bytes to 4 KiB, plus small ones.
   Concrete values (a symbolic size up to 9000 does not finish: the solver has to prove a sum over ~280 iterations);
   the short-read pattern stays symbolic. */
static const size_t vg_sizes[] = { 0, 1, 2, 31, 32, 33, 63, 64, 65, 96, 127, 128, 129, 255, 256, 257, 511, 512, 513, 1000,
	1023, 1024, 1025, 2047, 2048, 2049, 4095, 4096, 4097, 5000, 8191, 8192, 8193 };
#define VG_NSIZES (sizeof(vg_sizes) / sizeof(vg_sizes[0]))

static void vg_one(size_t bytes)
{
	int r;
	vg_consumed = 0; vg_short = 0;
#ifdef VG_VIA_SKIP
	r = file_source_skip(&vg_file_obj, bytes);
#else
	r = file_source_skip_fallback(&vg_file_obj, bytes);
#endif
	__CPROVER_assert(r == 0 || r == 1, "skip reports 0 or 1");
	__CPROVER_assert(r != 1 || vg_consumed == bytes, "C16: a successful read-based skip has consumed exactly the bytes asked for");
	__CPROVER_assert(r != 0 || vg_short, "C13/C16: the read-based skip fails only after a short read");
	__CPROVER_assert(vg_consumed <= bytes, "the read-based skip never consumes more than asked");
}

void h_skip_fallback_bounded(void)
{
	unsigned k;
	for (k = 0; k < VG_NSIZES; ++k) {
		vg_one(vg_sizes[k]);
	}
	VG_CANARY("skip_fallback_bounded");
}

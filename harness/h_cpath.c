/* C11, bounded and anchor-independent: the real collapse_path (lib/lha_file_header.c, unwoven) on every string of at
   most VG_CP_N bytes (all byte values) against the property's predicate computed directly: after the optional leading
   '/', no '/'-terminated component of the result is empty, "." or ".."; the result is not longer than the input.
   Plain route: no contract anchors, so a restructured collapse_path (fast paths, different loops) is still decided, and
   the counterexample is a concrete input string (native replay: replay/drv_path.c). */
#include "vg_common.h"
#include <string.h>
#ifndef VG_CP_N
#define VG_CP_N 7
#endif
#include "vg_libc.h"
#include "lib/lha_file_header.c"

char vg_in_cp[VG_CP_N + 1];
size_t vg_in_cplen;
static char vg_cpw[VG_CP_N + 1];

void h_collapse_path_bounded(void)
{
	size_t k, start, len = 0;
	int bad = 0, ended = 0;
	for (k = 0; k < VG_CP_N; k++) vg_in_cp[k] = nondet_char();
	vg_in_cplen = nondet_size_t();
	__CPROVER_assume(vg_in_cplen <= VG_CP_N);
	vg_in_cp[vg_in_cplen] = '\0';
	for (k = 0; k < VG_CP_N; k++) __CPROVER_assume(k >= vg_in_cplen || vg_in_cp[k] != '\0');
	for (k = 0; k <= VG_CP_N; k++) vg_cpw[k] = vg_in_cp[k];
	collapse_path(vg_cpw);
	/* length of the result */
	for (k = 0; k <= VG_CP_N; k++) if (!ended) { if (vg_cpw[k] == '\0') { ended = 1; len = k; } }
	__CPROVER_assert(ended && len <= vg_in_cplen, "C11 (bounded): collapse_path result is NUL-terminated and not longer than the input");
	start = (len > 0 && vg_cpw[0] == '/') ? 1 : 0;
	for (k = 0; k < VG_CP_N; k++) {
		if (k >= start && k < len && vg_cpw[k] == '/') {
			if (k == start) bad = 1;                                               /* empty component */
			if (k - start == 1 && vg_cpw[start] == '.') bad = 1;                  /* "."  */
			if (k - start == 2 && vg_cpw[start] == '.' && vg_cpw[start + 1] == '.') bad = 1;   /* ".." */
			start = k + 1;
		}
	}
	__CPROVER_assert(!bad, "C11 (bounded): no '/'-terminated component of the collapsed path is empty, '.' or '..'");
	VG_CANARY("collapse_path_bounded");
}

/* Bounded refuter for decoder units (DESIGN.md 3.6): the real (woven) decoder text, no contract
   instrumentation, started from its real init function, fed VG_RN symbolic input bytes through the
   callback, two read calls, loops unwound with a bound.  A failure here is a concrete input
   (vg_in_b / vg_in_n) that the native ASan driver replays.  Never counted as proof. */
#include "vg_common.h"
#include "lib/lha_decoder.h"
#ifndef VG_RN
#define VG_RN 4
#endif
uint8_t vg_in_b[VG_RN];
size_t vg_in_n;
static size_t vg_rpos;
size_t vg_cb(void *buf, size_t buf_len, void *user_data)
{
	size_t n = vg_in_n - vg_rpos, k;
	uint8_t *p = buf;
	if (n > buf_len) n = buf_len;
	for (k = 0; k < n; k++) p[k] = vg_in_b[vg_rpos + k];
	vg_rpos += n;
	return n;
}
size_t (*const vg_cb_ptr)(void *, size_t, void *) = vg_cb;
/* the UNWOVEN source is compiled here (plan key "unwoven": /repo's own text, no contract clauses) */
#include VG_METHOD_FILE

void h_refute(void)
{
	void *extra = malloc(VG_DTYPE.extra_size);
	uint8_t *out = malloc(VG_DTYPE.max_read);
	size_t k, r;
	__CPROVER_assume(extra != NULL && out != NULL);
	for (k = 0; k < VG_RN; k++) vg_in_b[k] = nondet_uchar();
	vg_in_n = nondet_size_t();
	__CPROVER_assume(vg_in_n <= VG_RN);
	if (VG_DTYPE.init(extra, vg_cb, NULL)) {
		r = VG_DTYPE.read(extra, out);
		__CPROVER_assert(r <= VG_DTYPE.max_read, "C09 bounded: read returns at most max_read");
		r = VG_DTYPE.read(extra, out);
		__CPROVER_assert(r <= VG_DTYPE.max_read, "C09 bounded: second read returns at most max_read");
	}
	VG_CANARY("refute end");
}

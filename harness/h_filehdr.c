/* Unit: lib/lha_file_header.c (LHA level 0-3 file header parser). */
#include "vg_common.h"
#include <stdio.h>
#include <time.h>
#include <ctype.h>
/* ASSUME: islower / tolower of the "C" locale (ISO C 7.4): 'a'..'z' are the lower-case letters,
   tolower maps 'A'..'Z' to 'a'..'z' and leaves every other value alone. */
#undef islower
#undef tolower
int islower(int c) { return c >= 'a' && c <= 'z'; }
int tolower(int c) { return (c >= 'A' && c <= 'Z') ? c + ('a' - 'A') : c; }
#include "vg_filehdr.h"

/* ================================================================= libc stubs (padded-string model) */
#ifndef VG_EXACT
/* room left in the object s points into (stubs only accept pointers into blocks of at most VG_PB bytes
   whose last byte is NUL: padded strings, or string literals such as "") */
#define VG_ROOM(s) ((size_t)(__CPROVER_OBJECT_SIZE(s) - VG_OFF(s)))
#define VG_STUB_STR_ARG(s, who) \
	__CPROVER_assert(__CPROVER_OBJECT_SIZE(s) <= VG_PB && VG_OFF(s) < __CPROVER_OBJECT_SIZE(s) && \
	                 __CPROVER_r_ok(s, VG_ROOM(s)) && ((const char *) (s))[VG_ROOM(s) - 1] == '\0', \
	                 who ": argument is a NUL-terminated string inside its block")
/* n := strlen(s), as a Skolem constant (existence follows from VG_STUB_STR_ARG) */
#define VG_ASSUME_IS_LEN(s, n) \
	__CPROVER_assume((n) < VG_ROOM(s) && (s)[n] == '\0' && \
		__CPROVER_forall { size_t vq_; (vq_ < VG_PB) ==> (vq_ < (n) ==> (s)[vq_] != '\0') })
/* no byte equal to c in s[from..to) */
#define VG_NO_CHAR(s, c, from, to) \
	(__CPROVER_forall { size_t vq_; (vq_ < VG_PB) ==> (((from) <= vq_ && vq_ < (to)) ==> (s)[vq_] != (char) (c)) })

/* ASSUME: malloc (for the string allocations of this file) returns NULL or a fresh block of the
   requested size with arbitrary contents; modelled as a VG_PB-byte block whose bytes from the requested
   size on are zero padding; requests of VG_PB bytes or more are outside the model (asserted). */
void *vg_malloc(size_t n)
{
	char *p;
	__CPROVER_assert(n >= 1 && n < VG_PB, "string allocation fits the padded-string model (size < VG_PB)");
	if (nondet_bool()) return NULL;
	p = malloc(VG_PB);
	__CPROVER_assume(p != NULL);
	__CPROVER_assume(__CPROVER_forall { size_t vq_; (vq_ < VG_PB) ==> (vq_ >= n ==> p[vq_] == '\0') });
	vg_msz = n;
	return p;
}
#define malloc(n) vg_malloc(n)

/* ASSUME: strlen(s) is the index of the first NUL of s (ISO C). */
size_t strlen(const char *s)
{
	size_t n = nondet_size_t();
	VG_STUB_STR_ARG(s, "strlen");
	VG_ASSUME_IS_LEN(s, n);
	vg_slen = n;
	return n;
}

/* ASSUME: strrchr(s, c), c != 0, returns a pointer to the last occurrence of c before the terminator
   of s, or NULL if there is none (ISO C). */
char *strrchr(const char *s, int c)
{
	size_t n = nondet_size_t(), k = nondet_size_t();
	VG_STUB_STR_ARG(s, "strrchr");
	__CPROVER_assert((char) c != '\0', "strrchr: stub covers c != 0");
	VG_ASSUME_IS_LEN(s, n);
	vg_slen = n;
	if (nondet_bool()) {
		__CPROVER_assume(k < n && s[k] == (char) c && VG_NO_CHAR(s, c, k + 1, n));
		return (char *) s + k;
	}
	__CPROVER_assume(VG_NO_CHAR(s, c, 0, n));
	return NULL;
}

/* ASSUME: strchr(s, c), c != 0, returns a pointer to the first occurrence of c before the terminator
   of s, or NULL if there is none (ISO C). */
char *strchr(const char *s, int c)
{
	size_t n = nondet_size_t(), k = nondet_size_t();
	VG_STUB_STR_ARG(s, "strchr");
	__CPROVER_assert((char) c != '\0', "strchr: stub covers c != 0");
	VG_ASSUME_IS_LEN(s, n);
	vg_slen = n;
	if (nondet_bool()) {
		__CPROVER_assume(k < n && s[k] == (char) c && VG_NO_CHAR(s, c, 0, k));
		return (char *) s + k;
	}
	__CPROVER_assume(VG_NO_CHAR(s, c, 0, n));
	return NULL;
}

/* ASSUME: strdup(s) returns NULL or a fresh block holding a copy of the C string s (POSIX); the
   block is modelled as VG_PB bytes, zero padded after the terminator.
   vg_hint (ghost, set by woven ghost statements) names the base of the block s points into; the stub
   checks the hint and then describes s through the base at constant indices (cheaper for the solver
   than reads at a symbolic offset). */
const char *vg_hint;
char *strdup(const char *s)
{
	size_t n = nondet_size_t(), o = VG_OFF(s);
	const char *b = vg_hint;
	char *r;
	VG_STUB_STR_ARG(s, "strdup");
	__CPROVER_assert(__CPROVER_same_object(b, s) && VG_OFF(b) == 0 && __CPROVER_OBJECT_SIZE(b) == VG_PB, "strdup: vg_hint is the base of the argument's block");
	if (nondet_bool()) return NULL;
	r = (malloc)(VG_PB);
	__CPROVER_assume(r != NULL);
	/* n is strlen(s): terminator at b[o + n], none in b[o .. o+n) */
	__CPROVER_assume(n < VG_PB - o && b[o + n] == '\0');
	__CPROVER_assume(__CPROVER_forall { size_t vq_; (vq_ < VG_PB) ==> ((o <= vq_ && vq_ < o + n) ==> b[vq_] != '\0') });
	/* r is the copy, zero padded: stated for the terminator, the last byte of the block and the arbitrary
	   index vg_K (one read at a symbolic offset instead of VG_PB of them) */
	__CPROVER_assume(r[n] == '\0' && r[VG_PB - 1] == '\0' && r[vg_K] == (vg_K < n ? s[vg_K] : '\0'));
	vg_dlen = n;
	return r;
}

/* ASSUME: memcpy(d, s, n) copies n bytes between valid, non-overlapping ranges and touches nothing else
   (ISO C).  Two shapes occur in this file: the 5-byte method string (copied byte by byte), and the copy
   of a raw name into a freshly allocated string block (stated for the arbitrary index vg_K and the last
   byte of the block; a built-in memcpy of symbolic length does not terminate in the solver). */
void *memcpy(void *dst, const void *src, size_t n)
{
	char *d = (char *) dst;
	const char *s = (const char *) src;
	__CPROVER_assert(n == 0 || (__CPROVER_r_ok(src, n) && __CPROVER_w_ok(dst, n)), "memcpy: source and destination ranges valid");
	__CPROVER_assert(n == 0 || !__CPROVER_same_object(dst, src) || VG_OFF(dst) + n <= VG_OFF(src) || VG_OFF(src) + n <= VG_OFF(dst),
	                 "memcpy: ranges do not overlap");
	if (n == 5) {
		d[0] = s[0]; d[1] = s[1]; d[2] = s[2]; d[3] = s[3]; d[4] = s[4];
	} else if (n != 0) {
		char last, atk;
		__CPROVER_assert(__CPROVER_OBJECT_SIZE(dst) == VG_PB && VG_OFF(dst) == 0 && n < VG_PB, "memcpy: destination is a string block");
		last = d[VG_PB - 1];
		atk = d[vg_K];
		__CPROVER_havoc_object(dst);
		__CPROVER_assume(d[VG_PB - 1] == last && d[vg_K] == (vg_K < n ? s[vg_K] : atk));
	}
	return dst;
}

/* ASSUME: sprintf(d, "%s%s", a, b) stores the concatenation of the C strings a and b and a terminator
   at d and touches nothing else (ISO C); the stub asserts that this fits the size that was requested
   for d from malloc.  The contents are stated for the terminator, the last byte of the block and the
   arbitrary index vg_K. */
int vg_sprintf2(char *d, const char *fmt, const char *a, const char *b)
{
	size_t la = nondet_size_t(), lb = nondet_size_t();
	__CPROVER_assert(fmt[0] == '%' && fmt[1] == 's' && fmt[2] == '%' && fmt[3] == 's' && fmt[4] == '\0', "sprintf: format is %s%s");
	VG_STUB_STR_ARG(a, "sprintf arg 1");
	VG_STUB_STR_ARG(b, "sprintf arg 2");
	__CPROVER_assert(VG_OFF(a) == 0 && VG_OFF(b) == 0, "sprintf: stub covers arguments that start their block");
	VG_ASSUME_IS_LEN(a, la);
	VG_ASSUME_IS_LEN(b, lb);
	__CPROVER_assert(__CPROVER_OBJECT_SIZE(d) == VG_PB && VG_OFF(d) == 0 && __CPROVER_w_ok(d, VG_PB), "sprintf: destination is a string block");
	__CPROVER_assert(la + lb + 1 <= vg_msz && vg_msz < VG_PB, "sprintf: result fits the allocated size");
	__CPROVER_havoc_object(d);
	__CPROVER_assume(d[la + lb] == '\0' && d[VG_PB - 1] == '\0' &&
	                 d[vg_K] == (vg_K < la ? a[vg_K] : (vg_K < la + lb ? b[vg_K - la] : '\0')));
	vg_slen = la + lb;
	return (int) (la + lb);
}
/* (not variadic: DFCC appends its write-set parameter to every instrumented function) */
#define sprintf(d, fmt, a, b) vg_sprintf2(d, fmt, a, b)
#endif /* !VG_EXACT */

/* ================================================================= stubs for other translation units */
#include "lha_file_header.h"
#include "lha_endian.h"
#include "ext_header.h"
#include "crc16.h"

/* ASSUME: lha_decode_uint16(buf) reads buf[0..2) and returns their little-endian value; lha_decode_uint32
   likewise for buf[0..4) (contracts of unit exthdr, contracts/lib/lha_endian.c.spec); reference bodies. */
uint16_t lha_decode_uint16(uint8_t *buf)
{
	__CPROVER_assert(VG_IN_RAW(buf, 2), "C08 lha_decode_uint16: buf[0..2) lies inside raw_data_len");
	return (uint16_t) (buf[0] | (buf[1] << 8));
}
uint32_t lha_decode_uint32(uint8_t *buf)
{
	__CPROVER_assert(VG_IN_RAW(buf, 4), "C08 lha_decode_uint32: buf[0..4) lies inside raw_data_len");
	return (uint32_t) buf[0] | ((uint32_t) buf[1] << 8) | ((uint32_t) buf[2] << 16) | ((uint32_t) buf[3] << 24);
}

/* ASSUME: lha_crc16_buf(crc, buf, n) reads buf[0..n), replaces *crc by the CRC-16 of those bytes continued
   from the old *crc and touches nothing else (unit crc16).  The stub records the call in ghosts and
   returns an arbitrary value vg_crc_out: "the CRC of vg_crc_buf[0..vg_crc_len) from vg_crc_init". */
void lha_crc16_buf(uint16_t *crc, uint8_t *buf, size_t buf_len)
{
	__CPROVER_assert((buf_len == 0 || __CPROVER_r_ok(buf, buf_len)) && VG_IN_RAW(buf, buf_len), "C08 lha_crc16_buf: buf[0..buf_len) readable, inside raw_data_len");
	vg_crc_buf = buf; vg_crc_len = buf_len; vg_crc_init = *crc; vg_crc_calls = vg_crc_calls + 1;
	vg_crc_out = nondet_ushort();
	*crc = vg_crc_out;
}

/* ASSUME: lha_ext_header_decode(header, num, data, data_len) (unit exthdr, contracts/lib/ext_header.c.spec):
   accesses only data[0..data_len) (it zeroes the two CRC bytes of a common header); may OR bits into
   extra_flags and set common_crc, timestamp, unix_perms, unix_uid, unix_gid, os9_perms and the three Windows
   times; may replace filename by a new heap string without '/' (the old one freed), path by a new heap
   string, unix_username / unix_group by new heap strings; changes nothing else - in particular not raw_data,
   raw_data_len, header_level, the lengths, method, crc, os_type, _refcount, symlink_target.
   New strings are padded VG_PB blocks (the stub's malloc model); names longer than VG_PB - 2 are outside
   the model. */
static char *vg_new_string(void)
{
	char *n = (malloc)(VG_PB);
	__CPROVER_assume(n != NULL);
	__CPROVER_assume(VG_STR(n));
	return n;
}
int lha_ext_header_decode(LHAFileHeader *header, uint8_t num, uint8_t *data, size_t data_len)
{
	__CPROVER_assert((data_len == 0 || __CPROVER_rw_ok(data, data_len)) && VG_IN_RAW(data, data_len),
	                 "C08 lha_ext_header_decode: data[0..data_len) lies inside raw_data_len");
	if (nondet_bool()) return 0;
	header->extra_flags |= nondet_uint() & (LHA_FILE_UNIX_PERMS | LHA_FILE_UNIX_UID_GID | LHA_FILE_COMMON_CRC |
	                                         LHA_FILE_WINDOWS_TIMESTAMPS | LHA_FILE_OS9_PERMS);
	header->common_crc = nondet_ushort();
	header->timestamp = nondet_uint();
	header->unix_perms = nondet_uint(); header->unix_uid = nondet_uint(); header->unix_gid = nondet_uint();
	header->os9_perms = nondet_uint();
	header->win_creation_time = nondet_size_t(); header->win_modification_time = nondet_size_t();
	header->win_access_time = nondet_size_t();
	if (data_len >= 2 && nondet_bool()) { data[0] = 0; data[1] = 0; }
#ifndef VG_EXT_NOSTR
	if (nondet_bool()) {
		char *n = vg_new_string();
		size_t l = nondet_size_t();
		__CPROVER_assume(VG_NAME_OK(n, l));
		free(header->filename); header->filename = n; vg_flen = l;
	}
	if (nondet_bool()) {
		char *n = vg_new_string();
		size_t l = nondet_size_t();
		__CPROVER_assume(VG_IS_LEN(n, l));
		free(header->path); header->path = n; vg_plen = l;
	}
	if (nondet_bool()) { char *n = vg_new_string(); free(header->unix_username); header->unix_username = n; }
	if (nondet_bool()) { char *n = vg_new_string(); free(header->unix_group); header->unix_group = n; }
#endif
	return 1;
}

/* ASSUME: strcmp / strncmp compare C strings lexicographically up to the first NUL (and at most n bytes)
   (ISO C).  Loop-free stubs, exact for what this file compares: the 6-byte method field against 5-character
   literals (strcmp), and prefixes of at most 5 bytes (strncmp); both facts are asserted. */
#define VG_CMP_STEP(i) if ((unsigned char) a[i] != (unsigned char) b[i]) return (unsigned char) a[i] < (unsigned char) b[i] ? -1 : 1; if (a[i] == '\0') return 0;
int strcmp(const char *a, const char *b)
{
	__CPROVER_assert(__CPROVER_r_ok(a, 6) && a[5] == '\0' && __CPROVER_r_ok(b, 6) && b[5] == '\0', "strcmp: both arguments terminated within 6 bytes");
	VG_CMP_STEP(0) VG_CMP_STEP(1) VG_CMP_STEP(2) VG_CMP_STEP(3) VG_CMP_STEP(4)
	return 0;
}
#define VG_NCMP_STEP(i) if (n <= (i)) return 0; VG_CMP_STEP(i)
int strncmp(const char *a, const char *b, size_t n)
{
	__CPROVER_assert(n <= 5 && __CPROVER_r_ok(a, 6) && __CPROVER_r_ok(b, n + 1), "strncmp: at most 5 bytes of the method field against a literal");
	VG_NCMP_STEP(0) VG_NCMP_STEP(1) VG_NCMP_STEP(2) VG_NCMP_STEP(3) VG_NCMP_STEP(4)
	return 0;
}

/* ghost: set when the realloc or the stream stub reports failure (used by the bounded level-1 group) */
int vg_io_fail;
#ifdef VG_PLAIN_L1
#define VG_IO_FAIL() (vg_io_fail = 1)
#else
#define VG_IO_FAIL() ((void) 0)
#endif
/* ASSUME: realloc(p, n) returns NULL and leaves the block alone, or releases p and returns a block of n
   bytes whose leading min(old size, n) bytes are those of p (ISO C).  The stub always moves the block (the
   harshest case for stale pointers) and scrambles the old one.  It carries the C13 obligation that one step grows a header block by
   at most LEVEL_3_MAX_HEADER_LEN (asserted for EVERY request), and then follows only requests that fit the
   physical model block: headers of more than VG_RAW_MAX raw bytes are not explored past this point. */
void *realloc(void *p, size_t n)
{
	struct vg_blk_t *o = (struct vg_blk_t *) p, *q;
	__CPROVER_assert(p != NULL && VG_OFF(p) == 0 && VG_IN_BLOCK(p) && __CPROVER_r_ok(p, VG_BLK_SIZE),
	                 "realloc: argument is a header block");
	__CPROVER_assert(n >= sizeof(LHAFileHeader) + vg_cap && n - sizeof(LHAFileHeader) - vg_cap <= VG_GROW_MAX,
	                 "C13 realloc: a header block grows by at most LEVEL_3_MAX_HEADER_LEN per step");
	if (nondet_bool()) { VG_IO_FAIL(); return NULL; }
	__CPROVER_assume(n <= VG_BLK_SIZE);
	q = (malloc)(VG_BLK_SIZE);
	__CPROVER_assume(q != NULL);
	*q = *o;
	/* the old block is gone: its contents become arbitrary (a stale read would break the functional
	   postconditions).  It is not handed to free(): CBMC 6.11's __CPROVER_was_freed cannot be used in the
	   contracts of the callers (measured), so stale WRITES to the old block are not detected here. */
	__CPROVER_havoc_object(p);
	vg_blk = (LHAFileHeader *) q;
	return q;
}

/* ASSUME: lha_input_stream_read(stream, buf, n) either returns 1 after storing exactly n arbitrary bytes at
   buf[0..n), or returns 0 (then buf[0..n) may have been overwritten in part); it touches nothing else
   (unit istream).  buf always lies in a header block here (asserted, with the logical bounds). */
int lha_input_stream_read(LHAInputStream *stream, void *buf, size_t buf_len)
{
	struct vg_blk_t *blk = (struct vg_blk_t *) vg_blk, t, nd;       /* nd: uninitialised = arbitrary bytes */
	size_t lo = VG_OFF(buf), hi = lo + buf_len;
	__CPROVER_assert(blk != NULL && VG_OFF(blk) == 0 && __CPROVER_same_object(buf, blk) && VG_IN_BLOCK(buf) &&
	                 buf_len <= VG_RAW_MAX && __CPROVER_w_ok(buf, buf_len) && VG_IN_RAW(buf, buf_len),
	                 "C08 lha_input_stream_read: buf[0..buf_len) lies inside the raw bytes of the block vg_blk");
	t = *blk;
	/* loop-free (DFCC rejects assignments to locals of a stub that contains a loop): 20 x 16 = VG_RAW_MAX bytes */
#define VG_RD1(i) if ((i) + sizeof(LHAFileHeader) >= lo && (i) + sizeof(LHAFileHeader) < hi) t.raw[i] = nd.raw[i];
#define VG_RD4(i) VG_RD1(i) VG_RD1((i) + 1) VG_RD1((i) + 2) VG_RD1((i) + 3)
#define VG_RD16(i) VG_RD4(i) VG_RD4((i) + 4) VG_RD4((i) + 8) VG_RD4((i) + 12)
#define VG_RD80(i) VG_RD16(i) VG_RD16((i) + 16) VG_RD16((i) + 32) VG_RD16((i) + 48) VG_RD16((i) + 64)
#if VG_RAW_MAX != 320
#error "lha_input_stream_read stub is unrolled for VG_RAW_MAX == 320"
#endif
	VG_RD80(0) VG_RD80(80) VG_RD80(160) VG_RD80(240)
	*blk = t;
	if (nondet_bool()) { VG_IO_FAIL(); return 0; }
	return 1;
}

/* ASSUME: mktime returns an arbitrary time_t and may normalise the fields of *tm (ISO C); the broken-down
   time it was handed is recorded in the ghost vg_tm for the C05 contract of decode_ftime. */
struct tm vg_tm;
int vg_mktime_calls;
time_t vg_mktime_ret;
time_t mktime(struct tm *tm)
{
	vg_tm = *tm;
	vg_mktime_calls = vg_mktime_calls + 1;
	vg_mktime_ret = (time_t) nondet_size_t();
	return vg_mktime_ret;
}

#include "lib/lha_file_header.c"

/* ================================================================= C11: collapse_path (legacy route) */
void h_collapse_path(void)
{
	__CPROVER_havoc_object(vg_path);
	vg_L = nondet_size_t();
	vg_wend = nondet_size_t();
	/* precondition (implied by the @fn contract's VG_STR: take vg_L = VG_PB - 1): a NUL lies within the block */
	__CPROVER_assume(vg_L < VG_PB && vg_path[vg_L] == '\0');
	collapse_path(vg_path);
	/* postcondition == VG_PATH_OK(filename, vg_wend) of the @fn contract */
	__CPROVER_assert(vg_wend < VG_PB && vg_path[vg_wend] == '\0', "C11 collapse_path: result NUL-terminated within the block");
	__CPROVER_assert(VG_NO_NUL_BEFORE(vg_path, vg_wend), "C11 collapse_path: vg_wend is the length of the result");
	__CPROVER_assert(VG_CLEAN_RANGE(vg_path, VG_F(vg_path), vg_wend), "C11 collapse_path: no empty, '.' or '..' component in the result");
	__CPROVER_assert(VG_PATH_OK(vg_path, vg_wend), "C11 collapse_path: VG_PATH_OK");
	__CPROVER_assert(vg_wend <= vg_L, "collapse_path: result not longer than the input");
	VG_CANARY("collapse_path");
}

/* ================================================================= string helpers (DFCC) */
static void vg_havoc(void)
{
	vg_flen = nondet_size_t(); vg_plen = nondet_size_t(); vg_tlen = nondet_size_t();
	vg_slen = nondet_size_t(); vg_dlen = nondet_size_t(); vg_msz = nondet_size_t();
	vg_wend = nondet_size_t();
	vg_K = nondet_size_t();
	__CPROVER_assume(vg_K < VG_PB);
	vg_cap = nondet_size_t(); vg_R = nondet_size_t(); __CPROVER_assume(vg_R < VG_RAW_MAX); vg_blk = NULL; vg_dx_ok = nondet_int(); vg_rule = nondet_int(); vg_moves = nondet_size_t(); __CPROVER_assume(vg_moves < 1000); vg_ext_total = nondet_size_t();
	vg_sum_ptr = NULL; vg_sum_len = nondet_size_t(); vg_sum8 = nondet_uint();
	vg_crc_buf = NULL; vg_crc_len = nondet_size_t(); vg_crc_init = nondet_ushort(); vg_crc_out = nondet_ushort(); vg_crc_calls = 0;
	vg_mktime_calls = 0;
}
void h_split_header_filename(void) { LHAFileHeader *h; vg_havoc(); split_header_filename(h); VG_CANARY("split_header_filename"); }
void h_full_path(void) { LHAFileHeader *h; vg_havoc(); lha_file_header_full_path(h); VG_CANARY("lha_file_header_full_path"); }
void h_parse_symlink(void) { LHAFileHeader *h; vg_havoc(); parse_symlink(h); VG_CANARY("parse_symlink"); }
void h_process_level0_path(void)
{
	LHAFileHeader *h; size_t n = nondet_size_t(); uint8_t *d;
	vg_havoc();
	__CPROVER_assume(n <= 255);
	d = (malloc)(n);                      /* the raw name: an object of exactly data_len bytes */
	__CPROVER_assume(d != NULL);
	process_level0_path(h, d, n);
	VG_CANARY("process_level0_path");
}
void h_fix_msdos_allcaps(void) { LHAFileHeader *h; vg_havoc(); fix_msdos_allcaps(h); VG_CANARY("fix_msdos_allcaps"); }

/* ================================================================= leaf functions of the block parser */
void h_check_l0_checksum(void) { uint8_t *p; size_t n, c; vg_havoc(); check_l0_checksum(p, n, c); VG_CANARY("check_l0_checksum"); }
/* meaning of the ghost vg_sum8: the real loop, fully unwound for every length the one-byte length field
   allows, against the sum of the bytes as a mathematical integer */
void h_check_l0_checksum_sum(void)
{
	uint8_t buf[257];
	size_t n = nondet_size_t(), c = nondet_size_t(), k;
	unsigned long ref = 0;
	int r;
	vg_havoc();
	__CPROVER_assume(n <= 257);
	r = check_l0_checksum(buf, n, c);
	for (k = 0; k < 257; k++) if (k < n) ref += buf[k];
	__CPROVER_assert(vg_sum8 == ref % 256, "C12 check_l0_checksum: vg_sum8 is the byte sum modulo 256");
	__CPROVER_assert((r != 0) == (ref % 256 == c), "C12 check_l0_checksum: non-zero exactly when the byte sum modulo 256 equals the checksum");
	VG_CANARY("check_l0_checksum_sum");
}
void h_check_common_crc(void) { LHAFileHeader *h; vg_havoc(); check_common_crc(h); VG_CANARY("check_common_crc"); }
void h_decode_ftime(void) { uint8_t *b; vg_havoc(); decode_ftime(b); VG_CANARY("decode_ftime"); }
void h_os9_to_unix_permissions(void) { LHAFileHeader *h; vg_havoc(); os9_to_unix_permissions(h); VG_CANARY("os9_to_unix_permissions"); }
void h_extend_raw_data(void) { LHAFileHeader **h; LHAInputStream *st; size_t n; vg_havoc(); extend_raw_data(h, st, n); VG_CANARY("extend_raw_data"); }
void h_decode_extended_headers(void) { LHAFileHeader **h; unsigned off; vg_havoc(); decode_extended_headers(h, off); VG_CANARY("decode_extended_headers"); }
/* bounded: string hand-over through the extended-header loop, loop unwound (at most 1 extended header) */
void h_decode_extended_headers_b(void)
{
	LHAFileHeader **h; unsigned off;
	vg_havoc();
	__CPROVER_assume(vg_cap <= 31 && off >= 24);
	decode_extended_headers(h, off);
	VG_CANARY("decode_extended_headers_b");
}
void h_read_next_ext_header(void) { LHAFileHeader **h; LHAInputStream *st; uint8_t **e; size_t *l; vg_havoc(); read_next_ext_header(h, st, e, l); VG_CANARY("read_next_ext_header"); }
/* bounded: the loop of read_l1_extended_headers unwound (at most 2 extended headers are read) */
void h_read_l1_extended_headers_b(void)
{
	LHAFileHeader **h; LHAInputStream *st; int r;
	vg_havoc();
	__CPROVER_assume(vg_cap >= VG_RAW_MAX - 7);   /* room for at most 2 extended headers (>= 3 bytes each) */
	r = read_l1_extended_headers(h, st);
	VG_CANARY("read_l1_extended_headers_b");
}
void h_decode_level0_header(void) { LHAFileHeader **h; LHAInputStream *st; vg_havoc(); decode_level0_header(h, st); VG_CANARY("decode_level0_header"); }
void h_decode_level1_header(void) { LHAFileHeader **h; LHAInputStream *st; vg_havoc(); decode_level1_header(h, st); VG_CANARY("decode_level1_header"); }
void h_decode_level2_header(void) { LHAFileHeader **h; LHAInputStream *st; vg_havoc(); decode_level2_header(h, st); VG_CANARY("decode_level2_header"); }
void h_decode_level3_header(void) { LHAFileHeader **h; LHAInputStream *st; vg_havoc(); decode_level3_header(h, st); VG_CANARY("decode_level3_header"); }
void h_process_level0_extended_area(void)
{
	LHAFileHeader *h; size_t n = nondet_size_t(); uint8_t *d;
	vg_havoc();
	__CPROVER_assume(1 <= n && n <= 233);    /* header_len - 22 - path_len with a one-byte header_len */
	d = (malloc)(n);                          /* the area: an object of exactly data_len bytes */
	__CPROVER_assume(d != NULL);
	process_level0_extended_area(h, d, n);
	VG_CANARY("process_level0_extended_area");
}
void h_file_header_free(void) { LHAFileHeader *h; vg_havoc(); lha_file_header_free(h); VG_CANARY("lha_file_header_free"); }
void h_file_header_add_ref(void) { LHAFileHeader *h; vg_havoc(); lha_file_header_add_ref(h); VG_CANARY("lha_file_header_add_ref"); }
/* Bounded, plain route: the REAL read_l1_extended_headers + read_next_ext_header + extend_raw_data on the moving
   model block, loop unwound; compressed_length <= 8 bounds the chain to at most 2 extended headers.  Checks the
   level-1 rules of C12/C05 against an independent walk over the raw bytes that were read. */
void h_read_l1_plain(void)
{
	struct vg_blk_t *b;
	LHAFileHeader *h; LHAInputStream *st;
	size_t cap0, cl0, pos, total = 0, k;
	unsigned len;
	_Bool rulebad = 0, ended = 0, ranout = 0;
	int r;
	vg_havoc();
	b = (malloc)(VG_BLK_SIZE);
	__CPROVER_assume(b != NULL);
	h = &b->h; vg_blk = h;
	cap0 = vg_cap;
	__CPROVER_assume(27 <= cap0 && cap0 <= VG_RAW_MAX);      /* a level-1 base header has at least 27 raw bytes */
	h->raw_data = b->raw; h->raw_data_len = cap0;
	cl0 = h->compressed_length;
	__CPROVER_assume(cl0 <= 8);
	vg_io_fail = 0;
	r = read_l1_extended_headers(&h, st);
	__CPROVER_assert(h == vg_blk && h->raw_data == VG_RAW(h) && h->raw_data_len <= vg_cap && vg_cap <= VG_RAW_MAX, "block shape after read_l1_extended_headers");
	/* independent walk over the chain: each length field is the last two bytes of what precedes it */
	pos = cap0 - 2;
	for (k = 0; k < 3; k++) {
		if (!ended && !rulebad && !ranout) {
			if (pos + 2 > h->raw_data_len) ranout = 1;
			else {
				len = VG_LE16(VG_RAW(h) + pos);
				if (len == 0) ended = 1;
				else if (len > cl0 - total || len < 3) rulebad = 1;
				else { total += len; pos += len; }
			}
		}
	}
	__CPROVER_assert(!rulebad || r == 0, "C12 level 1: an extended header larger than the remaining compressed length, or shorter than 3 bytes, is rejected");
	__CPROVER_assert(r == 0 || (ended && !rulebad && !ranout), "C12 level 1: success only for a chain that ends with a zero length inside the bytes read");
	__CPROVER_assert(r == 0 || (h->compressed_length == cl0 - total && h->raw_data_len == cap0 + total && vg_cap == cap0 + total),
	                 "C05 level 1: compressed_length is reduced by exactly the extended-header bytes read");
	__CPROVER_assert(r == 1 || r == 0, "result is 0 or 1");
	__CPROVER_assert(r == 1 || rulebad || vg_io_fail, "C12 level 1: failure only for a rule violation, a short read or an allocation failure");
	VG_CANARY("read_l1_plain");
}
void h_consts(void)
{
	__CPROVER_assert(VG_GROW_MAX == LEVEL_3_MAX_HEADER_LEN, "harness constant equals LEVEL_3_MAX_HEADER_LEN");
	__CPROVER_assert(COMMON_HEADER_LEN == 22 && LEVEL_0_MIN_HEADER_LEN == 22 && LEVEL_1_MIN_HEADER_LEN == 25 &&
	                 LEVEL_2_HEADER_LEN == 26 && LEVEL_3_HEADER_LEN == 32, "format constants of the property statement");
	VG_CANARY("consts");
}

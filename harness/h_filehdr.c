/* Unit: lib/lha_file_header.c (LHA level 0-3 file header parser). */
#include "vg_common.h"
#include <stdio.h>
#include <time.h>
#include <ctype.h>
/* ASSUME: islower / tolower of the "C" locale (ISO C 7.4): 'a'..'z' are the lower-case letters,
   tolower maps 'A'..'Z' to 'a'..'z' and leaves every other value alone. */
#undef islower
#undef tolower
int islower(int c) { return c >= 'a' && c <= 'z'; }
int tolower(int c) { return (c >= 'A' && c <= 'Z') ? c + ('a' - 'A') : c; }
#include "vg_filehdr.h"

/* ================================================================= libc stubs (padded-string model) */
#ifndef VG_EXACT
/* room left in the object s points into (stubs only accept pointers into blocks of at most VG_PB bytes
   whose last byte is NUL: padded strings, or string literals such as "") */
#define VG_ROOM(s) ((size_t)(__CPROVER_OBJECT_SIZE(s) - VG_OFF(s)))
#define VG_STUB_STR_ARG(s, who) \
	__CPROVER_assert(__CPROVER_OBJECT_SIZE(s) <= VG_PB && VG_OFF(s) < __CPROVER_OBJECT_SIZE(s) && \
	                 __CPROVER_r_ok(s, VG_ROOM(s)) && ((const char *) (s))[VG_ROOM(s) - 1] == '\0', \
	                 who ": argument is a NUL-terminated string inside its block")
/* n := strlen(s), as a Skolem constant (existence follows from VG_STUB_STR_ARG) */
#define VG_ASSUME_IS_LEN(s, n) \
	__CPROVER_assume((n) < VG_ROOM(s) && (s)[n] == '\0' && \
		__CPROVER_forall { size_t vq_; (vq_ < VG_PB) ==> (vq_ < (n) ==> (s)[vq_] != '\0') })
/* no byte equal to c in s[from..to) */
#define VG_NO_CHAR(s, c, from, to) \
	(__CPROVER_forall { size_t vq_; (vq_ < VG_PB) ==> (((from) <= vq_ && vq_ < (to)) ==> (s)[vq_] != (char) (c)) })

/* ASSUME: malloc (for the string allocations of this file) returns NULL or a fresh block of the
   requested size with arbitrary contents; modelled as a VG_PB-byte block whose bytes from the requested
   size on are zero padding; requests of VG_PB bytes or more are outside the model (asserted). */
void *vg_malloc(size_t n)
{
	char *p;
	__CPROVER_assert(n >= 1 && n < VG_PB, "string allocation fits the padded-string model (size < VG_PB)");
	if (nondet_bool()) return NULL;
	p = malloc(VG_PB);
	__CPROVER_assume(p != NULL);
	__CPROVER_assume(__CPROVER_forall { size_t vq_; (vq_ < VG_PB) ==> (vq_ >= n ==> p[vq_] == '\0') });
	vg_msz = n;
	return p;
}
#define malloc(n) vg_malloc(n)

/* ASSUME: strlen(s) is the index of the first NUL of s (ISO C). */
size_t strlen(const char *s)
{
	size_t n = nondet_size_t();
	VG_STUB_STR_ARG(s, "strlen");
	VG_ASSUME_IS_LEN(s, n);
	vg_slen = n;
	return n;
}

/* ASSUME: strrchr(s, c), c != 0, returns a pointer to the last occurrence of c before the terminator
   of s, or NULL if there is none (ISO C). */
char *strrchr(const char *s, int c)
{
	size_t n = nondet_size_t(), k = nondet_size_t();
	VG_STUB_STR_ARG(s, "strrchr");
	__CPROVER_assert((char) c != '\0', "strrchr: stub covers c != 0");
	VG_ASSUME_IS_LEN(s, n);
	vg_slen = n;
	if (nondet_bool()) {
		__CPROVER_assume(k < n && s[k] == (char) c && VG_NO_CHAR(s, c, k + 1, n));
		return (char *) s + k;
	}
	__CPROVER_assume(VG_NO_CHAR(s, c, 0, n));
	return NULL;
}

/* ASSUME: strchr(s, c), c != 0, returns a pointer to the first occurrence of c before the terminator
   of s, or NULL if there is none (ISO C). */
char *strchr(const char *s, int c)
{
	size_t n = nondet_size_t(), k = nondet_size_t();
	VG_STUB_STR_ARG(s, "strchr");
	__CPROVER_assert((char) c != '\0', "strchr: stub covers c != 0");
	VG_ASSUME_IS_LEN(s, n);
	vg_slen = n;
	if (nondet_bool()) {
		__CPROVER_assume(k < n && s[k] == (char) c && VG_NO_CHAR(s, c, 0, k));
		return (char *) s + k;
	}
	__CPROVER_assume(VG_NO_CHAR(s, c, 0, n));
	return NULL;
}

/* ASSUME: strdup(s) returns NULL or a fresh block holding a copy of the C string s (POSIX); the
   block is modelled as VG_PB bytes, zero padded after the terminator.
   vg_hint (ghost, set by woven ghost statements) names the base of the block s points into; the stub
   checks the hint and then describes s through the base at constant indices (cheaper for the solver
   than reads at a symbolic offset). */
const char *vg_hint;
char *strdup(const char *s)
{
	size_t n = nondet_size_t(), o = VG_OFF(s);
	const char *b = vg_hint;
	char *r;
	VG_STUB_STR_ARG(s, "strdup");
	__CPROVER_assert(__CPROVER_same_object(b, s) && VG_OFF(b) == 0 && __CPROVER_OBJECT_SIZE(b) == VG_PB, "strdup: vg_hint is the base of the argument's block");
	if (nondet_bool()) return NULL;
	r = (malloc)(VG_PB);
	__CPROVER_assume(r != NULL);
	/* n is strlen(s): terminator at b[o + n], none in b[o .. o+n) */
	__CPROVER_assume(n < VG_PB - o && b[o + n] == '\0');
	__CPROVER_assume(__CPROVER_forall { size_t vq_; (vq_ < VG_PB) ==> ((o <= vq_ && vq_ < o + n) ==> b[vq_] != '\0') });
	/* r is the copy, zero padded: stated for the terminator, the last byte of the block and the arbitrary
	   index vg_K (one read at a symbolic offset instead of VG_PB of them) */
	__CPROVER_assume(r[n] == '\0' && r[VG_PB - 1] == '\0' && r[vg_K] == (vg_K < n ? s[vg_K] : '\0'));
	vg_dlen = n;
	return r;
}

/* ASSUME: memcpy(d, s, n) copies n bytes between valid, non-overlapping ranges and touches nothing else
   (ISO C).  Two shapes occur in this file: the 5-byte method string (copied byte by byte), and the copy
   of a raw name into a freshly allocated string block (stated for the arbitrary index vg_K and the last
   byte of the block; a built-in memcpy of symbolic length does not terminate in the solver). */
void *memcpy(void *dst, const void *src, size_t n)
{
	char *d = (char *) dst;
	const char *s = (const char *) src;
	__CPROVER_assert(n == 0 || (__CPROVER_r_ok(src, n) && __CPROVER_w_ok(dst, n)), "memcpy: source and destination ranges valid");
	__CPROVER_assert(n == 0 || !__CPROVER_same_object(dst, src), "memcpy: ranges in different objects (no overlap)");
	if (n == 5) {
		d[0] = s[0]; d[1] = s[1]; d[2] = s[2]; d[3] = s[3]; d[4] = s[4];
	} else if (n != 0) {
		char last, atk;
		__CPROVER_assert(__CPROVER_OBJECT_SIZE(dst) == VG_PB && VG_OFF(dst) == 0 && n < VG_PB, "memcpy: destination is a string block");
		last = d[VG_PB - 1];
		atk = d[vg_K];
		__CPROVER_havoc_object(dst);
		__CPROVER_assume(d[VG_PB - 1] == last && d[vg_K] == (vg_K < n ? s[vg_K] : atk));
	}
	return dst;
}

/* ASSUME: sprintf(d, "%s%s", a, b) stores the concatenation of the C strings a and b and a terminator
   at d and touches nothing else (ISO C); the stub asserts that this fits the size that was requested
   for d from malloc.  The contents are stated for the terminator, the last byte of the block and the
   arbitrary index vg_K. */
int vg_sprintf2(char *d, const char *fmt, const char *a, const char *b)
{
	size_t la = nondet_size_t(), lb = nondet_size_t();
	__CPROVER_assert(fmt[0] == '%' && fmt[1] == 's' && fmt[2] == '%' && fmt[3] == 's' && fmt[4] == '\0', "sprintf: format is %s%s");
	VG_STUB_STR_ARG(a, "sprintf arg 1");
	VG_STUB_STR_ARG(b, "sprintf arg 2");
	__CPROVER_assert(VG_OFF(a) == 0 && VG_OFF(b) == 0, "sprintf: stub covers arguments that start their block");
	VG_ASSUME_IS_LEN(a, la);
	VG_ASSUME_IS_LEN(b, lb);
	__CPROVER_assert(__CPROVER_OBJECT_SIZE(d) == VG_PB && VG_OFF(d) == 0 && __CPROVER_w_ok(d, VG_PB), "sprintf: destination is a string block");
	__CPROVER_assert(la + lb + 1 <= vg_msz && vg_msz < VG_PB, "sprintf: result fits the allocated size");
	__CPROVER_havoc_object(d);
	__CPROVER_assume(d[la + lb] == '\0' && d[VG_PB - 1] == '\0' &&
	                 d[vg_K] == (vg_K < la ? a[vg_K] : (vg_K < la + lb ? b[vg_K - la] : '\0')));
	vg_slen = la + lb;
	return (int) (la + lb);
}
/* (not variadic: DFCC appends its write-set parameter to every instrumented function) */
#define sprintf(d, fmt, a, b) vg_sprintf2(d, fmt, a, b)
#endif /* !VG_EXACT */

/* ASSUME: mktime returns an arbitrary time_t and may normalise the fields of *tm (ISO C); the broken-down
   time it was handed is recorded in the ghost vg_tm for the C05 contract of decode_ftime. */
struct tm vg_tm;
int vg_mktime_calls;
time_t mktime(struct tm *tm)
{
	vg_tm = *tm;
	vg_mktime_calls = vg_mktime_calls + 1;
	return (time_t) nondet_size_t();
}

#include "lib/lha_file_header.c"

/* ================================================================= C11: collapse_path (legacy route) */
void h_collapse_path(void)
{
	__CPROVER_havoc_object(vg_path);
	vg_L = nondet_size_t();
	vg_wend = nondet_size_t();
	/* precondition (implied by the @fn contract's VG_STR: take vg_L = VG_PB - 1): a NUL lies within the block */
	__CPROVER_assume(vg_L < VG_PB && vg_path[vg_L] == '\0');
	collapse_path(vg_path);
	/* postcondition == VG_PATH_OK(filename, vg_wend) of the @fn contract */
	__CPROVER_assert(vg_wend < VG_PB && vg_path[vg_wend] == '\0', "C11 collapse_path: result NUL-terminated within the block");
	__CPROVER_assert(VG_NO_NUL_BEFORE(vg_path, vg_wend), "C11 collapse_path: vg_wend is the length of the result");
	__CPROVER_assert(VG_CLEAN_RANGE(vg_path, VG_F(vg_path), vg_wend), "C11 collapse_path: no empty, '.' or '..' component in the result");
	__CPROVER_assert(VG_PATH_OK(vg_path, vg_wend), "C11 collapse_path: VG_PATH_OK");
	__CPROVER_assert(vg_wend <= vg_L, "collapse_path: result not longer than the input");
	VG_CANARY("collapse_path");
}

/* ================================================================= string helpers (DFCC) */
static void vg_havoc(void)
{
	vg_flen = nondet_size_t(); vg_plen = nondet_size_t(); vg_tlen = nondet_size_t();
	vg_slen = nondet_size_t(); vg_dlen = nondet_size_t(); vg_msz = nondet_size_t();
	vg_wend = nondet_size_t();
	vg_K = nondet_size_t();
	__CPROVER_assume(vg_K < VG_PB);
}
void h_split_header_filename(void) { LHAFileHeader *h; vg_havoc(); split_header_filename(h); VG_CANARY("split_header_filename"); }
void h_full_path(void) { LHAFileHeader *h; vg_havoc(); lha_file_header_full_path(h); VG_CANARY("lha_file_header_full_path"); }
void h_parse_symlink(void) { LHAFileHeader *h; vg_havoc(); parse_symlink(h); VG_CANARY("parse_symlink"); }
void h_process_level0_path(void)
{
	LHAFileHeader *h; size_t n = nondet_size_t(); uint8_t *d;
	vg_havoc();
	__CPROVER_assume(n <= 255);
	d = (malloc)(n);                      /* the raw name: an object of exactly data_len bytes */
	__CPROVER_assume(d != NULL);
	process_level0_path(h, d, n);
	VG_CANARY("process_level0_path");
}
void h_fix_msdos_allcaps(void) { LHAFileHeader *h; vg_havoc(); fix_msdos_allcaps(h); VG_CANARY("fix_msdos_allcaps"); }

/* Unit: lib/lh1_decoder.c (adaptive Huffman -lh1-) together with the bit_stream_reader.c template it includes. */
#define VG_CB_MAX 4
#include "vg_decoder.h"

/* Constants of the code, re-stated as literals so that quantifier bounds are syntactically constant;
   h_dtype asserts that they equal the macros/array sizes of lh1_decoder.c. */
#define VG_NN   627u   /* NUM_TREE_NODES */
#define VG_NC   314u   /* NUM_CODES      */
#define VG_RING 4096u  /* RING_BUFFER_SIZE */
#define VG_MAX_COPY 60u /* NUM_CODES - 1 - 0x100 + COPY_THRESHOLD */

/* The "seam" between the modular (per-function, inductive) groups and the bounded whole-decoder group.
   VG_LH1_HYP(c) marks a fact that follows from the counting / sibling-property invariant of the adaptive
   Huffman tree (or from the exact group structure), which the per-entry representation invariant LH1_OK cannot
   express.  In the modular groups the fact is a hypothesis; in lh1.bounded_run (-DVG_LH1_BOUNDED) the very same
   woven statement is an ASSERTION checked on the real decoder started from lha_lh1_init. */
/* ASSUME: (lh1 modular groups) the facts marked VG_LH1_HYP S1..S6 in contracts/lib/lh1_decoder.c.spec hold:
   S1 a free group id exists when increment_node_freq allocates one; S2 a group is allocated when it frees one;
   S3 make_group_leader never returns the root for a non-root node (the root is alone in its group);
   S4 a node's parent has a smaller index than the node; S5 the node returned by make_group_leader is the
   recorded leader of its group; S6 the tree has exactly NUM_CODES leaves when it is reconstructed.
   S1..S5 are asserted, not assumed, in the bounded group lh1.bounded_run, but that group is currently
   UNDECIDED (parked: K=1 symbol exceeds 900 s / 14 GB), and S6 is not reachable there: all six are
   UNVERIFIED hypotheses of the modular lh1 groups increment_node_freq / increment_for_code / reconstruct_tree. */
/* ASSUME: lha_lh1_init is entered with every group_leader[] entry below NUM_TREE_NODES; its only caller
   lha_decoder_new passes calloc'ed (all-zero) memory.  Entries of unallocated groups are never written. */
#ifdef VG_LH1_BOUNDED
#define VG_LH1_HYP(c, msg) __CPROVER_assert(c, "LH1_HYP " msg)
#else
#define VG_LH1_HYP(c, msg) __CPROVER_assume(c)
#endif

#define VG_FA(v, N, body) (__CPROVER_forall { unsigned v; (v < (N)) ==> (body) })

#define VG_BSR      BSR_OK(&vg_dec.bit_stream_reader)
#define VG_ND(k)    vg_dec.nodes[k]
#define VG_PREV(k)  ((k) == 0 ? 0u : (k) - 1u)

/* per-node index ranges: a leaf carries a code, a branch node two in-range children (child_index and
   child_index - 1); parent and group id in range (nodes[0].parent is never written nor read by the decoder) */
#define VG_NODE_OK(k) \
	((VG_ND(k).leaf ? VG_ND(k).child_index < VG_NC : (VG_ND(k).child_index >= 1 && VG_ND(k).child_index < VG_NN)) && \
	 ((k) == 0 || VG_ND(k).parent < VG_NN) && VG_ND(k).group < VG_NN)
#define VG_NODES_OK   VG_FA(vk_, VG_NN, VG_NODE_OK(vk_))
#define VG_LEAFMAP_OK VG_FA(vc_, VG_NC, vg_dec.leaf_nodes[vc_] < VG_NN)
/* every group_leader[] entry is a node index (entries of never-allocated groups keep their initial value) */
#define VG_GL_RANGE   VG_FA(vg_, VG_NN, vg_dec.group_leader[vg_] < VG_NN)
/* free list of group ids: entries and fill level in range */
#define VG_FREE_OK    (vg_dec.num_groups <= VG_NN && VG_FA(vj_, VG_NN, vg_dec.groups[vj_] < VG_NN))
/* state of the free list right after init_groups */
#define VG_FREE_FRESH (vg_dec.num_groups == 0 && VG_FA(vj_, VG_NN, vg_dec.groups[vj_] == vj_))
/* the fixed offset code: exactly the d_code / d_len tables of LZHUF (1,3,8,12,24,16 codes of 3..8 bits) */
#define VG_DCODE(b) ((b) < 32u ? 0u : (b) < 80u ? 1u + ((b) - 32u) / 16u : (b) < 144u ? 4u + ((b) - 80u) / 8u : \
                     (b) < 192u ? 12u + ((b) - 144u) / 4u : (b) < 240u ? 24u + ((b) - 192u) / 2u : 48u + ((b) - 240u))
#define VG_DLEN(o)  ((o) < 1u ? 3u : (o) < 4u ? 4u : (o) < 12u ? 5u : (o) < 24u ? 6u : (o) < 48u ? 7u : 8u)
#define VG_OFFTAB_OK \
	(VG_FA(vb_, 256u, vg_dec.offset_lookup[vb_] == VG_DCODE(vb_)) && VG_FA(vo_, 64u, vg_dec.offset_lengths[vo_] == VG_DLEN(vo_)))
#define VG_RING_OK  (vg_dec.ringbuf_pos < VG_RING)

#define VG_TREE_OK  (VG_NODES_OK && VG_GL_RANGE && VG_LEAFMAP_OK && VG_FREE_OK)
#define LH1_OK      (VG_BSR && VG_RING_OK && VG_TREE_OK && VG_OFFTAB_OK)

/* initial tree: LZHUF StartHuff mirrored (node k here is node 626-k there) */
#define VG_INIT_NODE(k) \
	((k) >= 313u ? (VG_ND(k).leaf && VG_ND(k).child_index == 626u - (k) && VG_ND(k).freq == 1) \
	             : (!VG_ND(k).leaf && VG_ND(k).child_index == 2u * (k) + 2u && \
	                VG_ND(k).freq == VG_ND((k) >= 313u ? 0u : 2u * (k) + 2u).freq + VG_ND((k) >= 313u ? 0u : 2u * (k) + 1u).freq))
#define VG_INIT_SHAPE \
	(VG_FA(vk_, VG_NN, VG_INIT_NODE(vk_) && (vk_ == 0 || VG_ND(vk_).parent == (vk_ - 1u) / 2u) && \
	       (vk_ == 0 || ((VG_ND(vk_).group == VG_ND(VG_PREV(vk_)).group) == (VG_ND(vk_).freq == VG_ND(VG_PREV(vk_)).freq)))) && \
	 VG_FA(vc_, VG_NC, vg_dec.leaf_nodes[vc_] == 626u - vc_))

/* reconstruct_tree: contract macros shared by the woven contract (used when callers replace the call) and
   the legacy-route harness entry (pointer loop variable `leaf`) */
#define VG_RT_PRE     (VG_TREE_OK)
#define VG_RT_POST    (VG_TREE_OK)
/* leaf pointer <-> number l of gathered leaves still to be copied back: leaf == &vg_dec.nodes[l - 1], 0 <= l <= 627 */
#define VG_NODES_OFF  ((size_t) 4124)   /* offsetof(LHALH1Decoder, nodes), checked in h_dtype */
#define VG_LEAF_PTR(p) (__CPROVER_same_object((p), &vg_dec) && VG_OFF(p) + 8 >= VG_NODES_OFF && \
                        (VG_OFF(p) + 8 - VG_NODES_OFF) % 8 == 0 && VG_OFF(p) + 8 - VG_NODES_OFF <= 8 * (size_t) VG_NN)
#define VG_L(p)       ((VG_OFF(p) + 8 - VG_NODES_OFF) / 8)
/* rebuild loop: i next slot to fill (slots above i are filled), child the upper node of the next pair to get
   a parent; child == 2*(i+1-l); number of filled nodes without a parent = child - i */
#define VG_RT_AVAIL(i, child) ((int) (child) - (i))
#define VG_RT_SCALARS(p, i, child) \
	(VG_LEAF_PTR(p) && VG_L(p) <= VG_NC && -1 <= (i) && (i) <= 626 && (child) <= 626u && \
	 (int) (child) == 2 * ((i) + 1 - (int) VG_L(p)))
#define VG_RT_DATA(p, i, child) \
	(VG_FA(vk_, VG_NN, VG_ND(vk_).group < VG_NN && \
	       (vk_ < VG_L(p) ==> (VG_ND(vk_).leaf && VG_ND(vk_).child_index < VG_NC)) && \
	       ((int) vk_ > (i) ==> (VG_ND(vk_).leaf ? VG_ND(vk_).child_index < VG_NC : (VG_ND(vk_).child_index >= 1 && VG_ND(vk_).child_index < VG_NN))) && \
	       (vk_ > (child) ==> VG_ND(vk_).parent < VG_NN)) && VG_LEAFMAP_OK)

#define VG_IT_PRE   (VG_FREE_FRESH && VG_GL_RANGE)
#define VG_IT_POST  (VG_TREE_OK && VG_INIT_SHAPE && vg_dec.num_groups >= 1)

/* C02 sibling-property vocabulary (explained at h_inf_sib below) */
#define VG_F(k)  vg_dec.nodes[k].freq
#define VG_G(k)  vg_dec.nodes[k].group
#define VG_LD(g) vg_dec.group_leader[g]
#define VG_SIB2(x, y) ((x) >= (y) || (VG_F(x) >= VG_F(y) && ((VG_G(x) == VG_G(y)) == (VG_F(x) == VG_F(y)))))
#define VG_SIB1(x) (VG_G(x) < VG_NN && VG_LD(VG_G(x)) <= (x) && VG_G(VG_LD(VG_G(x))) == VG_G(x) && \
                    (VG_LD(VG_G(x)) == 0 || VG_G(VG_LD(VG_G(x)) - 1) != VG_G(x)))
#define VG_FREE1(f, x) ((f) < vg_dec.num_groups || (f) >= VG_NN || (vg_dec.groups[f] < VG_NN && vg_dec.groups[f] != VG_G(x)))
#define VG_FREE2(f, f2) ((f) < vg_dec.num_groups || (f) >= (f2) || (f2) >= VG_NN || vg_dec.groups[f] != vg_dec.groups[f2])
#define VG_KID(x) (VG_ND(x).leaf ? (VG_ND(x).child_index < VG_NC && vg_dec.leaf_nodes[VG_ND(x).child_index] == (x)) \
                                 : (VG_ND(x).child_index >= 1 && VG_ND(x).child_index < VG_NN && \
                                    VG_ND(VG_ND(x).child_index).parent == (x) && VG_ND(VG_ND(x).child_index - 1).parent == (x)))


#include "lib/lh1_decoder.c"

static void vg_havoc(void)
{
	__CPROVER_havoc_object(&vg_dec);
	__CPROVER_havoc_object(vg_out);
}

void h_peek_bits(void) { BitStreamReader *r; unsigned n; peek_bits(r, n); VG_CANARY("peek_bits"); }
void h_read_bits(void) { BitStreamReader *r; unsigned n; read_bits(r, n); VG_CANARY("read_bits"); }
void h_read_bit(void) { BitStreamReader *r; read_bit(r); VG_CANARY("read_bit"); }

void h_alloc_group(void) { LHALH1Decoder *d; vg_havoc(); alloc_group(d); VG_CANARY("alloc_group"); }
void h_free_group(void) { LHALH1Decoder *d; uint16_t g; vg_havoc(); free_group(d, g); VG_CANARY("free_group"); }
void h_init_groups(void) { LHALH1Decoder *d; vg_havoc(); init_groups(d); VG_CANARY("init_groups"); }
/* init_tree assigns a pointer local (node) inside its loops, which DFCC loop instrumentation cannot handle, and
   its loops have constant trip counts: plain route, loops fully unwound (complete).  The entry runs the real
   init_groups first (exactly what lha_lh1_init does), checks that this establishes init_tree's woven
   precondition, and asserts the woven postcondition (same macros VG_IT_PRE / VG_IT_POST) and the frame. */
static LHALH1Decoder vg_snap;
#define VG_SNAP_REST_SAME \
	(vg_dec.bit_stream_reader.callback == vg_snap.bit_stream_reader.callback && vg_dec.bit_stream_reader.callback_data == vg_snap.bit_stream_reader.callback_data && \
	 vg_dec.bit_stream_reader.bit_buffer == vg_snap.bit_stream_reader.bit_buffer && vg_dec.bit_stream_reader.bits == vg_snap.bit_stream_reader.bits && \
	 vg_dec.ringbuf_pos == vg_snap.ringbuf_pos && VG_FA(vr_, 4096u, vg_dec.ringbuf[vr_] == vg_snap.ringbuf[vr_]) && \
	 VG_FA(vb_, 256u, vg_dec.offset_lookup[vb_] == vg_snap.offset_lookup[vb_]) && VG_FA(vo_, 64u, vg_dec.offset_lengths[vo_] == vg_snap.offset_lengths[vo_]))
void h_init_tree(void)
{
	vg_havoc();
	__CPROVER_assume(VG_GL_RANGE);
	init_groups(&vg_dec);
	__CPROVER_assert(VG_IT_PRE, "init_tree precondition established by init_groups");
	vg_snap = vg_dec;
	init_tree(&vg_dec);
	__CPROVER_assert(VG_IT_POST, "init_tree postcondition");
	__CPROVER_assert(VG_SNAP_REST_SAME && VG_FA(vj_, VG_NN, vg_dec.groups[vj_] == vj_),
	                 "init_tree frame: only nodes, leaf_nodes, group_leader, num_groups change");
	{
		/* base case of the sibling-property invariant (C02; macros defined further down in this file) */
		unsigned x = nondet_uint(), y = nondet_uint(), f1 = nondet_uint(), f2 = nondet_uint();
		__CPROVER_assume(x < VG_NN && y < VG_NN && f1 < VG_NN && f2 < VG_NN);
		__CPROVER_assert(VG_SIB2(x, y) && VG_SIB1(x), "C02 sibling property holds of the initial tree (arbitrary pair / node)");
		__CPROVER_assert(VG_FREE1(f1, x) && VG_FREE2(f1, f2), "C02 initial group id free list is disjoint from the ids in use and duplicate-free");
		__CPROVER_assert(VG_KID(x), "C02 initial tree: leaf map and parent links are consistent (arbitrary node)");
	}
	VG_CANARY("init_tree");
}
void h_fill_offset_range(void) { LHALH1Decoder *d; uint8_t c; unsigned m, o; vg_havoc(); fill_offset_range(d, c, m, o); VG_CANARY("fill_offset_range"); }
void h_init_offset_table(void) { LHALH1Decoder *d; vg_havoc(); init_offset_table(d); VG_CANARY("init_offset_table"); }
void h_init_ring_buffer(void) { LHALH1Decoder *d; vg_havoc(); init_ring_buffer(d); VG_CANARY("init_ring_buffer"); }
void h_init(void) { void *d; LHADecoderCallback cb; void *cbd; vg_havoc(); lha_lh1_init(d, cb, cbd); VG_CANARY("lha_lh1_init"); }
void h_make_group_leader(void) { LHALH1Decoder *d; uint16_t n; vg_havoc(); make_group_leader(d, n); VG_CANARY("make_group_leader"); }
void h_increment_node_freq(void) { LHALH1Decoder *d; uint16_t n; vg_havoc(); increment_node_freq(d, n); VG_CANARY("increment_node_freq"); }
void h_increment_for_code(void) { LHALH1Decoder *d; uint16_t c; vg_havoc(); increment_for_code(d, c); VG_CANARY("increment_for_code"); }
void h_read_code(void) { LHALH1Decoder *d; uint16_t *r; vg_havoc(); read_code(d, r); VG_CANARY("read_code"); }
void h_read_offset(void) { LHALH1Decoder *d; unsigned *r; vg_havoc(); read_offset(d, r); VG_CANARY("read_offset"); }
void h_output_byte(void) { LHALH1Decoder *d; uint8_t *b; size_t *bl; uint8_t v; vg_havoc(); output_byte(d, b, bl, v); VG_CANARY("output_byte"); }
void h_read(void) { void *d; uint8_t *b; vg_havoc(); lha_lh1_read(d, b); VG_CANARY("lha_lh1_read"); }

/* ------------------------------------------------------------------------------------------------------------
   C02: the sibling property of the adaptive tree, as a quantifier-free (Skolem) representation invariant.
   LZHUF keeps the node table sorted by frequency and, on a hit, exchanges the node with the boundary node of its
   equal-frequency run before incrementing it.  lhasa implements the same exchange with explicit "groups" (maximal
   runs of equal frequency) and per-group leaders.  SIB says, for ARBITRARY node indices x < y, free-list slots f < f2:
     SIB2(x,y)  freq is non-increasing by index, and two nodes share a group exactly when they have equal frequency;
     SIB1(x)    the recorded leader of x's group is at or left of x, belongs to the group, and its left neighbour does not;
     FREE1(f,x) ids on the free part of the id list are in range and not in use; FREE2(f,f2) they are pairwise distinct;
     KID(x)     a leaf is the leaf recorded for its code; both children of a branch node name it as their parent.
   Each group below assumes the invariant at the finitely many indices its argument needs (all of them instances of
   the universally quantified precondition, so nothing is lost), runs the REAL function, and asserts the invariant at
   arbitrary indices afterwards, plus the function's own LZHUF-step postconditions.  Loop-free code: complete. */
#define VG_TMAX 6
static unsigned vg_T[VG_TMAX], vg_nT;
static void vg_T_add(unsigned k) { if (k < VG_NN && vg_nT < VG_TMAX) vg_T[vg_nT++] = k; }
static void vg_T_add_with_leader(unsigned k)
{
	if (k >= VG_NN) return;
	vg_T_add(k);
	if (VG_G(k) < VG_NN) { unsigned l = VG_LD(VG_G(k)); vg_T_add(l); if (l >= 1) vg_T_add(l - 1); }
}
/* assume SIB at every index / pair of the instance set, and the free-list facts at the slots f1, f2 and the first free slot */
static void vg_assume_sib(unsigned f1, unsigned f2)
{
	unsigned a, b, nf = vg_dec.num_groups;
	__CPROVER_assume(vg_dec.num_groups <= VG_NN);
	for (a = 0; a < VG_TMAX; a++) if (a < vg_nT) {
		__CPROVER_assume(VG_SIB1(vg_T[a]));
		__CPROVER_assume(VG_FREE1(f1, vg_T[a]) && VG_FREE1(f2, vg_T[a]) && VG_FREE1(nf, vg_T[a]));
		for (b = 0; b < VG_TMAX; b++) if (b < vg_nT) __CPROVER_assume(VG_SIB2(vg_T[a], vg_T[b]));
	}
	__CPROVER_assume(VG_FREE2(f1, f2) && VG_FREE2(nf, f1) && VG_FREE2(nf, f2) && VG_FREE2(f2, f1));
}

/* increment_node_freq(n), n the leader of its group and not the root (what increment_for_code passes, hypotheses
   S3/S5): SIB is preserved; the frequency of n goes up by one and no other frequency, no other node's group and no
   tree link changes; afterwards n shares a group with its left neighbour exactly when their frequencies are equal
   (LZHUF: the node has arrived at the boundary of the next equal-frequency run). */
void h_inf_sib(void)
{
	uint16_t n = nondet_ushort();
	unsigned x = nondet_uint(), y = nondet_uint(), f1 = nondet_uint(), f2 = nondet_uint();
	uint16_t fx, gx, fn;
	vg_havoc();
	__CPROVER_assume(n >= 1 && n < VG_NN && x < VG_NN && y < VG_NN && f1 < VG_NN && f2 < VG_NN);
	vg_nT = 0;
	vg_T_add(x); vg_T_add(y); vg_T_add(n - 1u); vg_T_add(n); vg_T_add(n + 1u);
	vg_assume_sib(f1, f2);
	__CPROVER_assume(VG_LD(VG_G(n)) == n);                      /* n is the leader of its group (S5) */
	fx = VG_F(x); gx = VG_G(x); fn = VG_F(n);
	increment_node_freq(&vg_dec, n);
	__CPROVER_assert(VG_F(n) == (uint16_t) (fn + 1) && fn != 65535, "C02 increment_node_freq: the node's frequency goes up by exactly one (no wrap)");
	__CPROVER_assert(x == n || (VG_F(x) == fx && VG_G(x) == gx), "C02 increment_node_freq: no other node's frequency or group changes");
	__CPROVER_assert((VG_G(n) == VG_G(n - 1u)) == (VG_F(n) == VG_F(n - 1u)) && VG_F(n - 1u) >= VG_F(n),
	                 "C02 increment_node_freq: the node joins the run to its left exactly when the frequencies are now equal, order kept");
	__CPROVER_assert(VG_SIB2(x, y), "C02 sibling property preserved by increment_node_freq: sorted by frequency, group <=> equal frequency (arbitrary pair)");
	__CPROVER_assert(VG_SIB1(x), "C02 sibling property preserved by increment_node_freq: group leaders (arbitrary node)");
	__CPROVER_assert(VG_FREE1(f1, x) && VG_FREE2(f1, f2), "C02 group id free list stays disjoint from the ids in use and duplicate-free");
	VG_CANARY("inf_sib");
}

/* the same statement restricted to the node and its two neighbours (a sub-case of h_inf_sib with fewer symbolic cells:
   decided faster, and a definite counter-model is found faster when the code is wrong) */
void h_inf_local(void)
{
	uint16_t n = nondet_ushort();
	unsigned f1 = nondet_uint(), f2 = nondet_uint();
	vg_havoc();
	__CPROVER_assume(n >= 1 && n < VG_NN && f1 < VG_NN && f2 < VG_NN);
#ifdef VG_INF_N
	n = VG_INF_N;                                   /* one constant position at an end of the node table */
#endif
	vg_nT = 0;
	vg_T_add(n - 1u); vg_T_add(n); vg_T_add(n + 1u);
	vg_assume_sib(f1, f2);
	__CPROVER_assume(VG_LD(VG_G(n)) == n);
	increment_node_freq(&vg_dec, n);
	__CPROVER_assert(VG_SIB2(n - 1u, n) && VG_SIB1(n) && VG_SIB1(n - 1u), "C02 increment_node_freq (local): node and left neighbour: order, group <=> equal frequency, leaders");
	__CPROVER_assert(n + 1u >= VG_NN || (VG_SIB2(n, n + 1u) && VG_SIB2(n - 1u, n + 1u) && VG_SIB1(n + 1u)),
	                 "C02 increment_node_freq (local): right neighbour: it becomes the leader of the group the node left, or was never in it");
	__CPROVER_assert(VG_FREE1(f1, n) && VG_FREE1(f1, n - 1u) && (n + 1u >= VG_NN || VG_FREE1(f1, n + 1u)) && VG_FREE2(f1, f2),
	                 "C02 increment_node_freq (local): free ids stay unused and distinct");
	VG_CANARY("inf_local");
}

/* make_group_leader(n): returns the leader l of n's group; the two nodes exchange their subtrees (leaf flag and
   child/code) and nothing else: frequencies, groups, leaders and every other node are unchanged (so SIB is untouched),
   and the parent/leaf back-links follow the exchange (KID at an arbitrary node). */
void h_mgl_sib(void)
{
	uint16_t n = nondet_ushort(), r, l;
	unsigned x = nondet_uint(), c = nondet_uint();
	unsigned nx_leaf, nx_child, nn_leaf, nn_child, nl_leaf, nl_child;
	uint16_t nx_freq, nx_group, ld;
	vg_havoc();
	__CPROVER_assume(n < VG_NN && x < VG_NN && c < VG_NN);
	__CPROVER_assume(VG_SIB1(n));
	l = VG_LD(VG_G(n));
	__CPROVER_assume(VG_SIB2(l, n) && VG_SIB2(n, l));           /* same group <=> same frequency, for the node and its leader */
	__CPROVER_assume(VG_KID(x) && VG_KID(n) && VG_KID(l));
	nx_leaf = VG_ND(x).leaf; nx_child = VG_ND(x).child_index; nx_freq = VG_F(x); nx_group = VG_G(x);
	nn_leaf = VG_ND(n).leaf; nn_child = VG_ND(n).child_index; nl_leaf = VG_ND(l).leaf; nl_child = VG_ND(l).child_index;
	ld = VG_LD(c);
	r = make_group_leader(&vg_dec, n);
	__CPROVER_assert(r == l, "C02 make_group_leader: returns the recorded leader of the node's group");
	__CPROVER_assert(r < VG_NN && VG_LD(VG_G(r)) == r && VG_G(r) == VG_G(n) && VG_F(r) == VG_F(n),
	                 "C02/C09 make_group_leader: the node returned IS the recorded leader of its own group (hypothesis S5 of the DFCC groups, here derived from the sibling property)");
	__CPROVER_assert(VG_F(x) == nx_freq && VG_G(x) == nx_group && VG_LD(c) == ld, "C02 make_group_leader: frequencies, groups and leaders are untouched");
	__CPROVER_assert((x == n || x == l) || (VG_ND(x).leaf == nx_leaf && VG_ND(x).child_index == nx_child),
	                 "C02 make_group_leader: nodes other than the two exchanged keep their subtree");
	__CPROVER_assert(VG_ND(l).leaf == nn_leaf && VG_ND(l).child_index == nn_child && VG_ND(n).leaf == nl_leaf && VG_ND(n).child_index == nl_child,
	                 "C02 make_group_leader: the node and the leader exchange subtrees (LZHUF exchange with the boundary node of the equal-frequency run)");
	__CPROVER_assert(VG_KID(x), "C02 make_group_leader: leaf map and parent links follow the exchange (arbitrary node)");
	VG_CANARY("mgl_sib");
}

/* One iteration of increment_for_code's walk is make_group_leader(n) followed by increment_node_freq(l) on its result.
   By lh1.make_group_leader.sib the first call changes no frequency, group or leader and returns l = the leader of n's
   group, so SIB still holds and l satisfies the precondition of lh1.increment_node_freq.sib (with S3: l != root);
   by that group SIB holds afterwards.  A single group running both calls was tried and does not finish (cvc5/z3 200 s);
   the composition is this two-line argument over the two proved contracts. */

/* reconstruct_tree walks the node table with a POINTER loop variable (leaf): legacy route, i.e. the woven
   function contract (macros VG_RT_PRE / VG_RT_POST) is assumed / asserted here; init_groups and alloc_group
   are inlined (init_groups with its own loop contract). */
void h_reconstruct_tree(void)
{
	LHALH1Decoder *d;
	vg_havoc();
	__CPROVER_assume(d == &vg_dec);
	__CPROVER_assume(VG_RT_PRE);
	reconstruct_tree(d);
	__CPROVER_assert(VG_RT_POST, "reconstruct_tree postcondition");
	VG_CANARY("reconstruct_tree");
}

/* The LHADecoderType initialiser ties the contracts to what lha_decoder_new allocates. */
void h_dtype(void)
{
	__CPROVER_assert(lha_lh1_decoder.init == lha_lh1_init && lha_lh1_decoder.read == lha_lh1_read && lha_lh1_decoder.free == NULL,
	                 "decoder type uses the functions under contract");
	__CPROVER_assert(lha_lh1_decoder.extra_size == sizeof(LHALH1Decoder) && sizeof(vg_dec) == sizeof(LHALH1Decoder), "extra_size is the state struct");
	__CPROVER_assert(lha_lh1_decoder.max_read == OUTPUT_BUFFER_SIZE && sizeof(vg_out) == OUTPUT_BUFFER_SIZE &&
	                 lha_lh1_decoder.max_read >= VG_MAX_COPY, "max_read covers the largest read");
	__CPROVER_assert(lha_lh1_decoder.block_size > 0, "block_size positive");
	__CPROVER_assert(VG_NN == NUM_TREE_NODES && VG_NC == NUM_CODES && VG_RING == RING_BUFFER_SIZE &&
	                 VG_MAX_COPY == NUM_CODES - 1 - 0x100 + COPY_THRESHOLD && NUM_OFFSETS == 64 && MIN_OFFSET_LENGTH == 3,
	                 "harness constants equal the decoder's");
	__CPROVER_assert(sizeof(vg_dec.nodes) == VG_NN * sizeof(Node) && sizeof(vg_dec.leaf_nodes) == VG_NC * sizeof(uint16_t) &&
	                 sizeof(vg_dec.groups) == VG_NN * sizeof(uint16_t) && sizeof(vg_dec.group_leader) == VG_NN * sizeof(uint16_t) &&
	                 sizeof(vg_dec.offset_lookup) == 256 && sizeof(vg_dec.offset_lengths) == 64 && sizeof(vg_dec.ringbuf) == VG_RING,
	                 "array sizes equal the bounds used in LH1_OK");
	__CPROVER_assert(VG_NODES_OFF == (size_t) ((char *) vg_dec.nodes - (char *) &vg_dec) && sizeof(Node) == 8, "node table offset / node size used by VG_L");
	__CPROVER_assert(sizeof(offset_fdist) / sizeof(*offset_fdist) == 6 && offset_fdist[0] == 1 && offset_fdist[1] == 3 && offset_fdist[2] == 8 &&
	                 offset_fdist[3] == 12 && offset_fdist[4] == 24 && offset_fdist[5] == 16, "offset code length distribution is LZHUF's");
	VG_CANARY("dtype");
}

/* Bounded whole-decoder run (-DVG_LH1_BOUNDED, VG_K symbols): the real decoder from lha_lh1_init with symbolic
   input; every VG_LH1_HYP is an assertion here; all default memory checks on; unwinding assertions on. */
#ifndef VG_K
#define VG_K 2
#endif
void h_bounded_run(void)
{
	unsigned k;
	size_t n;
	vg_havoc();
	lha_lh1_init(&vg_dec, vg_cb, NULL);
	for (k = 0; k < VG_K; ++k) {
		n = lha_lh1_read(&vg_dec, vg_out);
		__CPROVER_assert(n <= VG_MAX_COPY, "bounded: read returns at most the largest copy");
	}
	VG_CANARY("bounded_run");
}

/* Unit: lib/lz5_decoder.c (-lz5-, 4 KiB ring, absolute copy positions). */
#define VG_CB_MAX 4
#include "vg_decoder.h"
#include "vg_ring.h"
/* the fixed LArc initial ring contents, from the format description (13-byte runs of every value,
   ascending bytes, descending bytes, 128 zeros, 110 spaces, 18 zeros) */
#define VG_LZ5_PAT(k) ((uint8_t)((k) < 3328 ? (k) / 13 : (k) < 3584 ? (k) - 3328 : (k) < 3840 ? 255 - ((k) - 3584) : \
                                 (k) < 3968 ? 0 : (k) < 4078 ? ' ' : 0))

/* snapshot scalars for harness-mode groups (declared before the include: contract text mentions them) */
static size_t vg_p0, vg_l0;
static unsigned vg_n0;

#include "lib/lz5_decoder.c"


static void vg_havoc(void)
{
	__CPROVER_havoc_object(&vg_dec);
	__CPROVER_havoc_object(vg_out);
	__CPROVER_havoc_object(vg_log);
	vg_n = nondet_uint();
	__CPROVER_assume(vg_n < VG_LOG_MAX);
	vg_K = nondet_size_t(); vg_Y = nondet_size_t(); vg_E = nondet_size_t();
	/* Skolem indices range over the valid cells of their arrays */
	__CPROVER_assume(vg_K < OUTPUT_BUFFER_SIZE && vg_Y < RING_BUFFER_SIZE && vg_E < OUTPUT_BUFFER_SIZE);
}
static void vg_snapshot(size_t l)
{
	vg_dec0 = vg_dec;
	__CPROVER_array_copy(vg_out0.b, vg_out);
	vg_p0 = vg_dec.ringbuf_pos; vg_l0 = l; vg_n0 = vg_n;
}

void h_init(void) { void *d; LHADecoderCallback cb; void *cbd; vg_havoc(); lha_lz5_init(d, cb, cbd); VG_CANARY("lha_lz5_init"); }
void h_output_byte(void) { LHALZ5Decoder *d; uint8_t *b; size_t *bl; uint8_t v; vg_havoc(); output_byte(d, b, bl, v); VG_CANARY("output_byte"); }
void h_output_block(void) { LHALZ5Decoder *d; uint8_t *b; size_t *bl; unsigned s, l; vg_havoc(); output_block(d, b, bl, s, l); VG_CANARY("output_block"); }
void h_read(void) { void *d; uint8_t *b; vg_havoc(); lha_lz5_read(d, b); VG_CANARY("lha_lz5_read"); }

#ifdef VG_HARNESS_MODE
/* Functional clauses of output_block's contract, checked around the real call (loop contract applied by
   goto-instrument --apply-loop-contracts; output_byte inlined).  Local names mirror the parameter names so
   that the LZS_BLK_* macro text is literally the text of the function contract. */
void h_output_block_func(void)
{
	LHALZ5Decoder *decoder = &vg_dec;
	uint8_t *buf = vg_out;
	size_t bl = nondet_size_t();
	size_t *buf_len = &bl;
	unsigned start = nondet_uint(), len = nondet_uint();
	vg_havoc();
	__CPROVER_assume(LZS_BLK_PRE);
	vg_snapshot(bl);
	output_block(decoder, buf, buf_len, start, len);
	__CPROVER_assert(LZS_BLK_POST_LEN, "output_block: output length advanced by len");
	__CPROVER_assert(LZS_BLK_POST_POS, "output_block: ring position advanced by len mod S");
	__CPROVER_assert(LZS_BLK_POST_BYTE, "output_block: byte K is LZ77 copy from absolute position start+K (overlap aware)");
	__CPROVER_assert(LZS_BLK_POST_RING, "output_block: ring = old ring overwritten by the output at the old position");
	__CPROVER_assert(LZS_BLK_POST_EARLIER, "output_block: earlier output bytes unchanged");
	__CPROVER_assert(vg_dec.callback == vg_dec0.callback && vg_dec.callback_data == vg_dec0.callback_data,
	                 "output_block: callback fields untouched (frame)");
	VG_CANARY("output_block_func");
}
#endif

void h_fill_initial(void) { LHALZ5Decoder *d; vg_havoc(); fill_initial(d); VG_CANARY("fill_initial"); }
/* fill_initial walks a pointer over constant trip counts (256*13 + 256 + 256 + 128 + 110 + 18 = 4096 stores):
   fully unwound = complete.  One arbitrary cell vg_Y is compared with the format's pattern. */
void h_fill_initial_func(void)
{
	vg_havoc();
	fill_initial(&vg_dec);
	__CPROVER_assert(vg_dec.ringbuf[vg_Y] == VG_LZ5_PAT(vg_Y), "fill_initial: ring cell equals the LArc initial pattern");
	VG_CANARY("fill_initial_func");
}

void h_dtype(void)
{
	__CPROVER_assert(lha_lz5_decoder.init == lha_lz5_init && lha_lz5_decoder.read == lha_lz5_read && lha_lz5_decoder.free == NULL,
	                 "decoder type uses the functions under contract");
	__CPROVER_assert(lha_lz5_decoder.extra_size == sizeof(LHALZ5Decoder), "extra_size is the state struct");
	__CPROVER_assert(lha_lz5_decoder.max_read == OUTPUT_BUFFER_SIZE && OUTPUT_BUFFER_SIZE == 144, "max_read is eight largest copies (8 * 18)");
	__CPROVER_assert(lha_lz5_decoder.block_size > 0, "block_size positive");
	__CPROVER_assert(RING_BUFFER_SIZE == 4096 && START_OFFSET == 18 && THRESHOLD == 3, "format constants of the property statement");
	VG_CANARY("dtype");
}

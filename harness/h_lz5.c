/* Unit: lib/lz5_decoder.c (-lz5-, 4 KiB ring, absolute copy positions). */
#define VG_CB_MAX 4
#include "vg_decoder.h"
#include "vg_ring.h"
#ifdef VG_FUNC
#include "lib/lha_decoder.h"
/* ghost input bytes (same 48-byte window as the bit reader units), byte-oriented callback */
#define VG_IN_MAX 48
#define VG_POS_MAX 24
uint8_t vg_in[VG_IN_MAX];
size_t  vg_in_pos;
_Bool   vg_eof;      /* the callback returned 0: end of input */
_Bool   vg_short;    /* the callback returned 0 < n < requested: truncated inside a command (outside "well-formed") */
size_t  vg_p0run;    /* ghost: input position of the flag byte of the current run */
/* ASSUME: LHADecoderCallback contract, functional form for byte reads of 1 or 2 bytes: returns n <= buf_len,
   copies the next n input bytes, advances the input. */
size_t vg_cbb(void *buf, size_t buf_len, void *user_data)
{
	size_t n = nondet_size_t();
	uint8_t *p = (uint8_t *) buf;
	__CPROVER_assume(n <= buf_len);
	__CPROVER_assert(buf_len <= 2, "lz5 asks its callback for 1 or 2 bytes");
	if (n > 0) p[0] = vg_in[vg_in_pos];
	if (n > 1) p[1] = vg_in[vg_in_pos + 1];
	if (n == 0 && buf_len > 0) vg_eof = 1;
	if (n > 0 && n < buf_len) vg_short = 1;
	vg_in_pos += n;
	return n;
}
size_t (*const vg_cbb_ptr)(void *, size_t, void *) = vg_cbb;

/* -lz5- run format (property C03): flag byte BM at P0; command k (k = 0..7, LSB first) starts at input position
   CPOS(k) = P0 + 1 + sum_{j<k} (bit j set ? 1 : 2); literal: that byte; copy: 12-bit absolute ring position
   = byte0 | (byte1 & 0xF0) << 4, length = (byte1 & 0x0F) + 3. */
#define LZ5_BIT(BM, j)       ((((unsigned) (BM)) >> (j)) & 1u)
#define LZ5_ONES_BELOW(BM, k) ((size_t) ((0 < (k) ? LZ5_BIT(BM, 0) : 0) + (1 < (k) ? LZ5_BIT(BM, 1) : 0) + (2 < (k) ? LZ5_BIT(BM, 2) : 0) + \
                               (3 < (k) ? LZ5_BIT(BM, 3) : 0) + (4 < (k) ? LZ5_BIT(BM, 4) : 0) + (5 < (k) ? LZ5_BIT(BM, 5) : 0) + \
                               (6 < (k) ? LZ5_BIT(BM, 6) : 0) + (7 < (k) ? LZ5_BIT(BM, 7) : 0)))
#define LZ5_CPOS(P0, BM, k)  ((P0) + 1 + 2 * (size_t) (k) - LZ5_ONES_BELOW(BM, k))
#define LZ5_CMD_OK(P0, BM, k) (LZ5_BIT(BM, k) \
    ? (vg_log[k].kind == VG_LIT && vg_log[k].a == vg_in[LZ5_CPOS(P0, BM, k)] && vg_log[k].b == 1) \
    : (vg_log[k].kind == VG_COPY && vg_log[k].a == ((unsigned) vg_in[LZ5_CPOS(P0, BM, k)] | (((unsigned) vg_in[LZ5_CPOS(P0, BM, k) + 1] & 0xf0u) << 4)) && \
       vg_log[k].b == ((unsigned) vg_in[LZ5_CPOS(P0, BM, k) + 1] & 0x0fu) + 3u))
/* Skolem command vg_C stands for every logged command */
#define LZ5_LOG_OK(P0, BM, N)  (vg_C < (N) ==> LZ5_CMD_OK(P0, BM, vg_C))
/* outputs are laid end to end: first at offset 0, each next one after the previous command's bytes */
#define LZ5_OFFS_OK(N)       (((N) > 0 ==> vg_log[0].off == 0) && (vg_C + 1 < (N) ==> vg_log[vg_C + 1].off == vg_log[vg_C].off + vg_log[vg_C].b))
#define LZ5_TOTAL(N)         ((N) == 0 ? (size_t) 0 : vg_log[(N) - 1].off + vg_log[(N) - 1].b)
#define LZ5_RUN_POST_CMD(P0) (vg_short || vg_n == 0 || (vg_n <= 8 && LZ5_LOG_OK(P0, vg_in[P0], vg_n)))
#define LZ5_RUN_POST_OFFSETS (vg_short || LZ5_OFFS_OK(vg_n))
#define LZ5_RUN_POST_RESULT(r) (vg_short || ((r) == LZ5_TOTAL(vg_n) && (r) <= OUTPUT_BUFFER_SIZE))
#define LZ5_RUN_POST_END(P0) (vg_short || vg_n == 8 || vg_eof)
#endif
/* the fixed LArc initial ring contents, from the format description (13-byte runs of every value,
   ascending bytes, descending bytes, 128 zeros, 110 spaces, 18 zeros) */
#define VG_LZ5_PAT(k) ((uint8_t)((k) < 3328 ? (k) / 13 : (k) < 3584 ? (k) - 3328 : (k) < 3840 ? 255 - ((k) - 3584) : \
                                 (k) < 3968 ? 0 : (k) < 4078 ? ' ' : 0))

/* snapshot scalars for harness-mode groups (declared before the include: contract text mentions them) */
static size_t vg_p0, vg_l0;
static unsigned vg_n0;

#include "lib/lz5_decoder.c"


static void vg_havoc(void)
{
#ifdef VG_FUNC
	__CPROVER_havoc_object(vg_in);
	vg_in_pos = nondet_size_t();
	vg_eof = 0; vg_short = 0; vg_depth = 0;
	vg_C = nondet_size_t();
	__CPROVER_assume(vg_C < 8);
#endif
	__CPROVER_havoc_object(&vg_dec);
	__CPROVER_havoc_object(vg_out);
	__CPROVER_havoc_object(vg_log);
	vg_n = nondet_uint();
	__CPROVER_assume(vg_n < VG_LOG_MAX);
	vg_K = nondet_size_t(); vg_Y = nondet_size_t(); vg_E = nondet_size_t();
	/* Skolem indices range over the valid cells of their arrays */
	__CPROVER_assume(vg_K < OUTPUT_BUFFER_SIZE && vg_Y < RING_BUFFER_SIZE && vg_E < OUTPUT_BUFFER_SIZE);
}
static void vg_snapshot(size_t l)
{
	vg_dec0 = vg_dec;
	__CPROVER_array_copy(vg_out0.b, vg_out);
	vg_p0 = vg_dec.ringbuf_pos; vg_l0 = l; vg_n0 = vg_n;
}

void h_init(void) { void *d; LHADecoderCallback cb; void *cbd; vg_havoc(); lha_lz5_init(d, cb, cbd); VG_CANARY("lha_lz5_init"); }
void h_output_byte(void) { LHALZ5Decoder *d; uint8_t *b; size_t *bl; uint8_t v; vg_havoc(); output_byte(d, b, bl, v); VG_CANARY("output_byte"); }
void h_output_block(void) { LHALZ5Decoder *d; uint8_t *b; size_t *bl; unsigned s, l; vg_havoc(); output_block(d, b, bl, s, l); VG_CANARY("output_block"); }
void h_read(void) { void *d; uint8_t *b; vg_havoc(); lha_lz5_read(d, b); VG_CANARY("lha_lz5_read"); }

#ifdef VG_HARNESS_MODE
/* Functional clauses of output_block's contract, checked around the real call (loop contract applied by
   goto-instrument --apply-loop-contracts; output_byte inlined).  Local names mirror the parameter names so
   that the LZS_BLK_* macro text is literally the text of the function contract. */
void h_output_block_func(void)
{
	LHALZ5Decoder *decoder = &vg_dec;
	uint8_t *buf = vg_out;
	size_t bl = nondet_size_t();
	size_t *buf_len = &bl;
	unsigned start = nondet_uint(), len = nondet_uint();
	vg_havoc();
	__CPROVER_assume(LZS_BLK_PRE);
	vg_snapshot(bl);
	output_block(decoder, buf, buf_len, start, len);
	__CPROVER_assert(LZS_BLK_POST_LEN, "output_block: output length advanced by len");
	__CPROVER_assert(LZS_BLK_POST_POS, "output_block: ring position advanced by len mod S");
	__CPROVER_assert(LZS_BLK_POST_BYTE, "output_block: byte K is LZ77 copy from absolute position start+K (overlap aware)");
	__CPROVER_assert(LZS_BLK_POST_RING, "output_block: ring = old ring overwritten by the output at the old position");
	__CPROVER_assert(LZS_BLK_POST_EARLIER, "output_block: earlier output bytes unchanged");
	__CPROVER_assert(vg_dec.callback == vg_dec0.callback && vg_dec.callback_data == vg_dec0.callback_data,
	                 "output_block: callback fields untouched (frame)");
	VG_CANARY("output_block_func");
}
#endif

void h_fill_initial(void) { LHALZ5Decoder *d; vg_havoc(); fill_initial(d); VG_CANARY("fill_initial"); }
/* fill_initial walks a pointer over constant trip counts (256*13 + 256 + 256 + 128 + 110 + 18 = 4096 stores):
   fully unwound = complete.  One arbitrary cell vg_Y is compared with the format's pattern. */
void h_fill_initial_func(void)
{
	vg_havoc();
	fill_initial(&vg_dec);
	__CPROVER_assert(vg_dec.ringbuf[vg_Y] == VG_LZ5_PAT(vg_Y), "fill_initial: ring cell equals the LArc initial pattern");
	VG_CANARY("fill_initial_func");
}

void h_dtype(void)
{
	__CPROVER_assert(lha_lz5_decoder.init == lha_lz5_init && lha_lz5_decoder.read == lha_lz5_read && lha_lz5_decoder.free == NULL,
	                 "decoder type uses the functions under contract");
	__CPROVER_assert(lha_lz5_decoder.extra_size == sizeof(LHALZ5Decoder), "extra_size is the state struct");
	__CPROVER_assert(lha_lz5_decoder.max_read == OUTPUT_BUFFER_SIZE && OUTPUT_BUFFER_SIZE == 144, "max_read is eight largest copies (8 * 18)");
	__CPROVER_assert(lha_lz5_decoder.block_size > 0, "block_size positive");
	__CPROVER_assert(RING_BUFFER_SIZE == 4096 && START_OFFSET == 18 && THRESHOLD == 3, "format constants of the property statement");
	VG_CANARY("dtype");
}

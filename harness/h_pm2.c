/* Unit: lib/pm2_decoder.c (-pm2-) together with the templates it includes: bit_stream_reader.c,
   pma_common.c and tree_decode.c (TreeElement = uint8_t). */
#define VG_CB_MAX 4
#include "vg_decoder.h"

/* tree selection for the tree_decode.c contracts: 1 = code_tree, 2 = offset_tree */
#ifndef VG_BT
#define VG_BT 1
#endif
#ifndef VG_RT
#define VG_RT 1
#endif
/* table selection for decode_variable_length (pma_common.c.spec): 1 = history_decode, 2 = copy_decode */
#ifndef VG_VLT
#define VG_VLT 1
#endif

/* code tree: 65 elements; leaves are 7-bit values (TreeElement is uint8_t, top bit = leaf flag).  build_tree makes
   leaves < num_codes <= 31, but read_code_tree's single-code form stores (uint8_t)(num_codes - 1) | 0x80, which is
   leaf 127 for num_codes == 0: 128 is the tightest bound that is an invariant of the code. */
#define VG_CODE_LEN   65                          /* == CODE_TREE_ELEMENTS,   checked in h_dtype */
#define VG_CODE_ML    128u
#define VG_CODE_NC    31                          /* == sizeof code_lengths[] in read_code_tree */
/* offset tree: 17 elements; leaves < 8 (num_offsets <= 8 = sizeof offset_lengths[]) */
#define VG_OFFSET_LEN 17                          /* == OFFSET_TREE_ELEMENTS, checked in h_dtype */
#define VG_OFFSET_ML  8u
#define VG_OFFSET_NC  8
#if VG_BT == 1
#define VG_BT_ARRAY vg_dec.code_tree
#define VG_BT_LEN VG_CODE_LEN
#define VG_BT_ML VG_CODE_ML
#define VG_BT_NCODES VG_CODE_NC
#else
#define VG_BT_ARRAY vg_dec.offset_tree
#define VG_BT_LEN VG_OFFSET_LEN
#define VG_BT_ML VG_OFFSET_ML
#define VG_BT_NCODES VG_OFFSET_NC
#endif
#if VG_RT == 1
#define VG_RT_ARRAY vg_dec.code_tree
#define VG_RT_LEN VG_CODE_LEN
#define VG_RT_ML VG_CODE_ML
#else
#define VG_RT_ARRAY vg_dec.offset_tree
#define VG_RT_LEN VG_OFFSET_LEN
#define VG_RT_ML VG_OFFSET_ML
#endif
#if VG_VLT == 1
#define VG_VLT_ARRAY history_decode
#define VG_VLT_LEN 8u                             /* entries of history_decode[], checked in h_dtype */
#define VG_VLT_MAX 255                            /* 192 + 2^6 - 1: a history position fits uint8_t */
#else
#define VG_VLT_ARRAY copy_decode
#define VG_VLT_LEN 6u                             /* entries of copy_decode[], checked in h_dtype */
#define VG_VLT_MAX 256                            /* last row: 256 + 2^0 - 1 */
#endif

#define VG_BSR        BSR_OK(&vg_dec.bit_stream_reader)
#define VG_CODE_OK    TREE_OK(vg_dec.code_tree, VG_CODE_LEN, VG_CODE_ML)
#define VG_OFFSET_OK  TREE_OK(vg_dec.offset_tree, VG_OFFSET_LEN, VG_OFFSET_ML)
/* history list: every prev/next link is a valid index into history[256] by type (uint8_t), see pma_common.c.spec */
#define VG_STRUCT_OK  (VG_BSR && vg_dec.ringbuf_pos < RING_BUFFER_SIZE && VG_CODE_OK && VG_OFFSET_OK)
/* rebuild schedule of the format: trees are re-read after 1 KiB, 2 KiB, 4 KiB, 8 KiB and then every 4 KiB */
#define VG_REM_MAX(s) ((s) == PM2_REBUILD_BUILD1 || (s) == PM2_REBUILD_BUILD2 ? (size_t) 1024 : \
                       (s) == PM2_REBUILD_BUILD3 ? (size_t) 2048 : (size_t) 4096)
#define VG_RUNNING    (vg_dec.tree_state >= PM2_REBUILD_BUILD1 && vg_dec.tree_state <= PM2_REBUILD_CONTINUING && \
                       vg_dec.tree_rebuild_remaining >= 1 && vg_dec.tree_rebuild_remaining <= VG_REM_MAX(vg_dec.tree_state))
#define VG_SCALARS_OK ((vg_dec.tree_state == PM2_REBUILD_UNBUILT && vg_dec.tree_rebuild_remaining == 0) || VG_RUNNING)
#define VG_DEC_OK     (VG_STRUCT_OK && VG_SCALARS_OK)
#define VG_DEC_RUN    (VG_STRUCT_OK && VG_RUNNING)

int vg_nc, vg_ml;   /* ghost: num_codes / min_code_length as read by read_code_tree */
/* ghost: field order of a copy command (C04): how often the length field / the distance field have been decoded, for which
   code the distance was decoded last, and how many length fields had been decoded by then */
unsigned vg_n_count, vg_n_off, vg_off_code, vg_off_order;
#define VG_CMD_GHOSTS vg_n_count, vg_n_off, vg_off_code, vg_off_order
static uint8_t vg_rank[256];   /* ghost (C04): recency rank of every byte value, see the MTF groups below */
#include "lib/pm2_decoder.c"

TreeElement *const vg_bt_tree = VG_BT_ARRAY;
TreeElement *const vg_rt_tree = VG_RT_ARRAY;
HistoryLinkedList *const vg_hist = &vg_dec.history_list;
const VariableLengthTable *const vg_vlt = VG_VLT_ARRAY;

static void vg_havoc(void)
{
	__CPROVER_havoc_object(&vg_dec);
	__CPROVER_havoc_object(vg_out);
}

/* bit_stream_reader.c */
void h_peek_bits(void) { BitStreamReader *r; unsigned n; peek_bits(r, n); VG_CANARY("peek_bits"); }
void h_read_bits(void) { BitStreamReader *r; unsigned n; read_bits(r, n); VG_CANARY("read_bits"); }
void h_read_bit(void) { BitStreamReader *r; read_bit(r); VG_CANARY("read_bit"); }

/* tree_decode.c, TreeElement = uint8_t */
void h_init_tree(void) { TreeElement *t; size_t n; vg_havoc(); init_tree(t, n); VG_CANARY("init_tree"); }
void h_set_tree_single(void) { TreeElement *t; TreeElement c; vg_havoc(); set_tree_single(t, c); VG_CANARY("set_tree_single"); }
void h_expand_queue(void) { TreeBuildData *b; vg_havoc(); expand_queue(b); VG_CANARY("expand_queue"); }
void h_read_next_entry(void) { TreeBuildData *b; vg_havoc(); read_next_entry(b); VG_CANARY("read_next_entry"); }
void h_add_codes_with_length(void) { TreeBuildData *b; uint8_t *cl; unsigned n, l; vg_havoc(); add_codes_with_length(b, cl, n, l); VG_CANARY("add_codes_with_length"); }
void h_build_tree(void) { TreeElement *t; size_t tl; uint8_t *cl; unsigned n; vg_havoc(); build_tree(t, tl, cl, n); VG_CANARY("build_tree"); }
void h_read_from_tree(void) { BitStreamReader *r; TreeElement *t; vg_havoc(); read_from_tree(r, t); VG_CANARY("read_from_tree"); }

/* pma_common.c */
void h_decode_variable_length(void) { BitStreamReader *r; const VariableLengthTable *t; unsigned h; vg_havoc(); decode_variable_length(r, t, h); VG_CANARY("decode_variable_length"); }
void h_init_history_list(void) { HistoryLinkedList *l; vg_havoc(); init_history_list(l); VG_CANARY("init_history_list"); }
void h_find_in_history_list(void) { HistoryLinkedList *l; uint8_t c; vg_havoc(); find_in_history_list(l, c); VG_CANARY("find_in_history_list"); }
void h_update_history_list(void) { HistoryLinkedList *l; uint8_t b; vg_havoc(); update_history_list(l, b); VG_CANARY("update_history_list"); }

/* ------------------------------------------------------------------------------------------------------------
   C04: the history list of pma_common.c is a MOVE-TO-FRONT list (harness-mode contracts, quantifier-free).
   Abstract view: vg_rank[b] = recency rank of byte b (0 = most recently output).  Representation invariant MTF:
     head has rank 0;  for every node k: rank[prev[k]] == rank[k] + 1 (mod 256), next[prev[k]] == k, prev[next[k]] == k;
     rank is injective.
   Then (i) init_history_list establishes MTF with the fixed PMarc start order 0x20..0x7F, 0x00..0x1F, 0xA0..0xDF,
   0x80..0x9F, 0xE0..0xFF; (ii) find_in_history_list(n) returns THE byte of rank n, walking in either direction;
   (iii) update_history_list(b) is move-to-front on the view: b gets rank 0, every byte that was more recent than b
   moves back by one, every other byte keeps its rank -- and MTF holds again.
   Skolem style: the post-state invariant is asserted at ONE arbitrary node vg_mk; the pre-state invariant is assumed
   at the finitely many nodes the argument needs (instances of the universally quantified precondition). */
#define VG_HN(k)      vg_dec.history_list.history[(uint8_t) (k)]
#define VG_MTF_B(R, k) ((R)[VG_HN(k).prev] == (uint8_t) ((R)[(uint8_t) (k)] + 1))      /* one step back in time: rank + 1 */
#define VG_MTF_F(R, k) ((R)[VG_HN(k).next] == (uint8_t) ((R)[(uint8_t) (k)] - 1))      /* one step forward: rank - 1 (consequence of B and inverse-ness; carried explicitly) */
#define VG_MTF1(R, k) (VG_MTF_B(R, k) && VG_MTF_F(R, k) && VG_HN(VG_HN(k).prev).next == (uint8_t) (k) && VG_HN(VG_HN(k).next).prev == (uint8_t) (k))
/* start order of the format: position of byte b in 0x20..0x7F, 0x00..0x1F, 0xA0..0xDF, 0x80..0x9F, 0xE0..0xFF */
#define VG_RANK0(b)   ((uint8_t) ((b) >= 0x20 && (b) <= 0x7f ? (b) - 0x20 : (b) <= 0x1f ? 96 + (b) : \
                       (b) >= 0xa0 && (b) <= 0xdf ? 128 + ((b) - 0xa0) : (b) >= 0x80 && (b) <= 0x9f ? 192 + ((b) - 0x80) : 224 + ((b) - 0xe0)))
void h_mtf_init(void)
{
	unsigned k = nondet_uint(), j = nondet_uint();
	vg_havoc();
	__CPROVER_assume(k < 256 && j < 256);
	init_history_list(&vg_dec.history_list);
	__CPROVER_assert(vg_dec.history_list.history_head == 0x20 && VG_RANK0(0x20) == 0, "C04 history list starts at 0x20 (rank 0)");
	__CPROVER_assert(VG_RANK0(VG_HN(k).prev) == (uint8_t) (VG_RANK0(k) + 1) && VG_RANK0(VG_HN(k).next) == (uint8_t) (VG_RANK0(k) - 1) &&
	                 VG_HN(VG_HN(k).prev).next == k && VG_HN(VG_HN(k).next).prev == k,
	                 "C04 initial history list is the fixed PMarc order 0x20..0x7F, 0x00..0x1F, 0xA0..0xDF, 0x80..0x9F, 0xE0..0xFF (arbitrary node)");
	__CPROVER_assert(j == k || VG_RANK0(j) != VG_RANK0(k), "C04 the start order is a permutation of all 256 byte values");
	VG_CANARY("mtf_init");
}
/* find_in_history_list: the invariant is needed only along the walked path; the harness names those nodes (they are
   determined by the pre-state: c0 = head, c(i+1) = prev[c(i)] for n < 128, next[c(i)] for n >= 128) and assumes the one
   conjunct the walk uses there.  One group per direction (VG_MTF_DIR).  BOUNDED: ranks n < 24 resp. n >= 232
   (the loops have up to 127 / 128 iterations by the type of n; the full walk was tried and does not finish). */
#ifndef VG_MTF_DIR
#define VG_MTF_DIR 0
#endif
#ifndef VG_MTF_STEPS
#define VG_MTF_STEPS 24
#endif
void h_mtf_find(void)
{
	unsigned i;
	uint8_t n = nondet_uchar(), r, c;
	vg_havoc();
	__CPROVER_havoc_object(vg_rank);
	/* bound of these groups: walks of at most VG_MTF_STEPS steps (128-step chains of dependent symbolic reads do not
	   finish on any back end within 300 s) */
	__CPROVER_assume(VG_MTF_DIR ? n >= 256 - VG_MTF_STEPS : n < VG_MTF_STEPS);
	c = vg_dec.history_list.history_head;
	__CPROVER_assume(vg_rank[c] == 0);
	for (i = 0; i < VG_MTF_STEPS; i++) {
#if VG_MTF_DIR
		__CPROVER_assume(VG_MTF_F(vg_rank, c)); c = VG_HN(c).next;
#else
		__CPROVER_assume(VG_MTF_B(vg_rank, c)); c = VG_HN(c).prev;
#endif
	}
	r = find_in_history_list(&vg_dec.history_list, n);
	__CPROVER_assert(vg_rank[r] == n, "C04 find_in_history_list(n) returns the byte whose recency rank is n");
	VG_CANARY("mtf_find");
}
/* rank after move-to-front of b, as a function of the rank before */
#define VG_RANK1(x, b) ((uint8_t) ((uint8_t) (x) == (uint8_t) (b) ? 0 : vg_rank[(uint8_t) (x)] < vg_rank[(uint8_t) (b)] ? vg_rank[(uint8_t) (x)] + 1 : vg_rank[(uint8_t) (x)]))
void h_mtf_update(void)
{
	uint8_t b = nondet_uchar(), mk = nondet_uchar(), mj = nondet_uchar(), h0;
	uint8_t T[10]; unsigned a, c, nT = 0;
	vg_havoc();
	__CPROVER_havoc_object(vg_rank);
	h0 = vg_dec.history_list.history_head;
	T[nT++] = mk; T[nT++] = mj; T[nT++] = b; T[nT++] = h0; T[nT++] = VG_HN(b).prev; T[nT++] = VG_HN(b).next;
	T[nT++] = VG_HN(h0).next; T[nT++] = VG_HN(mk).prev; T[nT++] = VG_HN(mk).next; T[nT++] = VG_HN(h0).prev;
	__CPROVER_assume(vg_rank[h0] == 0);
	for (a = 0; a < 10; a++) {
		__CPROVER_assume(VG_MTF1(vg_rank, T[a]));
		for (c = 0; c < 10; c++) __CPROVER_assume(T[a] == T[c] || vg_rank[T[a]] != vg_rank[T[c]]);   /* rank injective */
	}
	update_history_list(&vg_dec.history_list, b);
	__CPROVER_assert(vg_dec.history_list.history_head == b, "C04 update_history_list: the byte just output becomes the head (rank 0)");
	__CPROVER_assert(VG_RANK1(VG_HN(mk).prev, b) == (uint8_t) (VG_RANK1(mk, b) + 1) && VG_RANK1(VG_HN(mk).next, b) == (uint8_t) (VG_RANK1(mk, b) - 1),
	                 "C04 update_history_list is move-to-front: in the new list every node's predecessor has the moved-to-front rank + 1 (arbitrary node)");
	__CPROVER_assert(VG_HN(VG_HN(mk).prev).next == mk && VG_HN(VG_HN(mk).next).prev == mk, "C04 update_history_list keeps prev/next mutually inverse (arbitrary node)");
	__CPROVER_assert(mj == mk || VG_RANK1(mj, b) != VG_RANK1(mk, b), "C04 update_history_list: the new ranks are again a permutation");
	VG_CANARY("mtf_update");
}

/* pm2_decoder.c */
void h_init(void)
{
	void *d; LHADecoderCallback cb; void *cbd;
	vg_havoc();
	lha_pm2_decoder_init(d, cb, cbd);
	VG_CANARY("lha_pm2_decoder_init");
}
void h_read_code_tree(void) { LHAPM2Decoder *d; vg_havoc(); read_code_tree(d); VG_CANARY("read_code_tree"); }
void h_read_offset_tree(void) { LHAPM2Decoder *d; unsigned n; vg_havoc(); read_offset_tree(d, n); VG_CANARY("read_offset_tree"); }
void h_rebuild_tree(void) { LHAPM2Decoder *d; vg_havoc(); rebuild_tree(d); VG_CANARY("rebuild_tree"); }
void h_output_byte(void) { LHAPM2Decoder *d; uint8_t *b; size_t *bl; uint8_t v; vg_havoc(); output_byte(d, b, bl, v); VG_CANARY("output_byte"); }
void h_read_single_byte(void) { LHAPM2Decoder *d; unsigned c; uint8_t *b; size_t *bl; vg_havoc(); read_single_byte(d, c, b, bl); VG_CANARY("read_single_byte"); }
void h_history_get_count(void) { LHAPM2Decoder *d; unsigned c; vg_havoc(); history_get_count(d, c); VG_CANARY("history_get_count"); }
void h_history_get_offset(void) { LHAPM2Decoder *d; unsigned c; vg_havoc(); history_get_offset(d, c); VG_CANARY("history_get_offset"); }
void h_copy_from_history(void) { LHAPM2Decoder *d; unsigned c; uint8_t *b; size_t *bl; vg_havoc(); copy_from_history(d, c, b, bl); VG_CANARY("copy_from_history"); }
void h_read(void) { void *d; uint8_t *b; vg_havoc(); lha_pm2_decoder_read(d, b); VG_CANARY("lha_pm2_decoder_read"); }

/* The LHADecoderType initialiser ties the contracts to what lha_decoder_new allocates, and the harness
   constants to the real declarations. */
void h_dtype(void)
{
	__CPROVER_assert(lha_pm2_decoder.init == lha_pm2_decoder_init && lha_pm2_decoder.read == lha_pm2_decoder_read &&
	                 lha_pm2_decoder.free == NULL, "decoder type uses the functions under contract");
	__CPROVER_assert(lha_pm2_decoder.extra_size == sizeof(LHAPM2Decoder), "extra_size is the state struct");
	__CPROVER_assert(lha_pm2_decoder.max_read == OUTPUT_BUFFER_SIZE && sizeof(vg_out) == OUTPUT_BUFFER_SIZE, "max_read is the output buffer size of the read contract");
	__CPROVER_assert(lha_pm2_decoder.block_size > 0, "block_size positive");
	__CPROVER_assert(sizeof(vg_dec.code_tree) == VG_CODE_LEN * sizeof(TreeElement) && sizeof(vg_dec.offset_tree) == VG_OFFSET_LEN * sizeof(TreeElement) &&
	                 sizeof(TreeElement) == 1 && TREE_NODE_LEAF == 0x80, "tree array sizes equal the lengths used in TREE_OK; 7-bit leaves");
	__CPROVER_assert(sizeof(history_decode) / sizeof(history_decode[0]) == 8 && sizeof(copy_decode) / sizeof(copy_decode[0]) == 6,
	                 "table sizes equal VG_VLT_LEN of the two decode_variable_length instantiations");
	__CPROVER_assert(sizeof(vg_dec.ringbuf) == RING_BUFFER_SIZE && sizeof(vg_dec.history_list.history) == 256 * sizeof(HistoryNode) &&
	                 sizeof(HistoryNode) == 2, "ring and history list geometry");
	VG_CANARY("dtype");
}

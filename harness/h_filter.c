/* Unit extractcli, part 2: src/filter.c -- member selection by glob filters (C08 memory safety, C13
   termination; C10: which members an invocation touches at all).

   Ghost vocabulary
     vg_glob[VG_GN] / vg_glen   the object holding the filter strings / position of a NUL in it: every pointer
                                into vg_glob at offset <= vg_glen is the start of a NUL-terminated string
     vg_str[VG_SN]  / vg_slen   the object holding the member name / position of its terminating NUL
     vg_mg_expect_glob/_str     ghost protocol: arguments the caller is specified to pass to match_glob (NULL = any)
   Arena sizes are ghost sizes only: the proofs are inductive (loop invariants, recursive call replaced by
   the contract) and do not depend on them.

   IMPORTANT (measured, cbmc 6.11): a pointer argument that is an unconstrained nondet value restricted only by
   __CPROVER_same_object(...) dereferences to a phantom object; the harness therefore always passes
   `arena + offset`. */
#include "vg_common.h"
#include "filter.h"

#ifdef VG_MG_FUN
#define VG_GN 16                       /* functional groups: the arena size is a real bound (see the end of this file) */
#define VG_SN 16
#else
#define VG_GN 64
#define VG_SN 64
#endif
#define VG_HS 32                       /* size of the objects holding header->path / header->filename */
char vg_glob[VG_GN], vg_str[VG_SN];
size_t vg_glen, vg_slen;
char *vg_mg_expect_glob, *vg_mg_expect_str;
_Bool vg_m[VG_GN + 1][VG_SN + 1];    /* functional groups: the glob relation, see the end of this file */
#define VG_FIRST_NULS (__CPROVER_forall { size_t vf_; (vf_ < VG_GN) ==> (vf_ < vg_glen ==> vg_glob[vf_] != 0) } && \
                       __CPROVER_forall { size_t vh_; (vh_ < VG_SN) ==> (vh_ < vg_slen ==> vg_str[vh_] != 0) })

#define VG_GLOB_OK(g)  (__CPROVER_same_object(g, vg_glob) && VG_OFF(g) <= vg_glen)
#define VG_STR_OK(s)   (__CPROVER_same_object(s, vg_str) && VG_OFF(s) <= vg_slen)
#define VG_STRINGS     (vg_glen < VG_GN && vg_glob[vg_glen] == 0 && vg_slen < VG_SN && vg_str[vg_slen] == 0)

/* ---- matches_filter / lha_filter_next_file vocabulary */
#define VG_NF 8                        /* size of the filter pointer table object (ghost size; loop closed by invariant) */
LHAFilter vg_filter;
char *vg_filters[VG_NF];
LHAFileHeader vg_hdr;
char vg_hpath[VG_HS], vg_hfile[VG_HS];
size_t vg_plen, vg_flen;               /* strlen of the two header strings */
LHAReader *vg_reader;                  /* opaque */

/* heap model for the one block matches_filter allocates: the block IS vg_str (so that match_glob's contract,
   stated on the arena, applies to it); size asked for, liveness and number of frees are ghost state */
size_t vg_alloc_size; int vg_alloc_live, vg_alloc_null; unsigned vg_allocs, vg_frees;
int vg_hit; unsigned vg_hit_i;         /* set by a woven ghost statement before `break`: a pattern matched, which one */
unsigned vg_tried;                     /* number of patterns tried without success so far */
/* results of the callees as seen by lha_filter_next_file */
LHAFileHeader *vg_rd_last; unsigned vg_rd_calls;
LHAFileHeader *vg_mf_hdr;

#define VG_HDR_OK   ((vg_hdr.path == NULL || vg_hdr.path == vg_hpath) && (vg_hdr.filename == NULL || vg_hdr.filename == vg_hfile) && \
                     vg_plen < VG_HS && vg_hpath[vg_plen] == 0 && vg_flen < VG_HS && vg_hfile[vg_flen] == 0)
#define VG_FILTER_OK (vg_filter.reader == vg_reader && vg_filter.filters == vg_filters && vg_filter.num_filters <= VG_NF && vg_glen < VG_GN && vg_glob[vg_glen] == 0)
/* every entry of the table is the start of a string inside vg_glob */
#define VG_FILTERS_OK __CPROVER_forall { unsigned vq_; (vq_ < VG_NF) ==> VG_GLOB_OK(vg_filters[vq_]) }

/* ASSUME: malloc(n) returns NULL or a block of n bytes with arbitrary contents; free releases a live block
   obtained from malloc.  The block is modelled by the arena vg_str (capacity VG_SN); an access beyond the size
   asked for is caught by the strcat obligation below, since strcat is the only writer besides path[0]. */
static void *vg_malloc(size_t n)
{
	__CPROVER_assert(!vg_alloc_live, "heap model: one block at a time");
	__CPROVER_assert(n >= 1 && n <= VG_SN, "C08 malloc: size asked for is strlen(path) + strlen(filename) + 1 (no wrap-around)");
	vg_allocs++;
	vg_alloc_null = nondet_bool();
	if (vg_alloc_null) return NULL;
	__CPROVER_havoc_object(vg_str);
	vg_alloc_size = n; vg_alloc_live = 1;
	return vg_str;
}
static void vg_free(void *p)
{
	__CPROVER_assert(p == (void *) vg_str && vg_alloc_live, "C08/C20 free: a live block from malloc, freed once");
	vg_alloc_live = 0; vg_frees++;
}
/* ASSUME: strlen(s) is the position of the first NUL of s; the two header strings have theirs at vg_plen / vg_flen. */
static size_t vg_strlen(const char *s)
{
	__CPROVER_assert(s == vg_hpath || s == vg_hfile, "C08 strlen: argument is one of the header strings (not NULL)");
	return s == vg_hpath ? vg_plen : vg_flen;
}
/* ASSUME: strcat(dst, src) copies strlen(src) + 1 bytes to dst + strlen(dst).  Lengths are tracked exactly
   (vg_slen = current length of the block), contents are left arbitrary (weaker than strcat, sound for the
   memory-safety obligations, which hold for every content). */
static char *vg_strcat(char *dst, const char *src)
{
	size_t n = vg_strlen(src);
	__CPROVER_assert(dst == vg_str && vg_alloc_live, "C08 strcat: destination is the block just allocated");
	__CPROVER_assert(vg_slen < vg_alloc_size && vg_str[vg_slen] == 0, "C08 strcat: destination is NUL-terminated inside the block");
	__CPROVER_assert(vg_slen + n + 1 <= vg_alloc_size, "C08 strcat: the result, including its NUL, fits the size malloc was asked for");
	__CPROVER_havoc_object(vg_str);
	vg_slen = vg_slen + n;
	vg_str[vg_slen] = 0;
	return dst;
}
/* ASSUME: lha_reader_next_file (lib/lha_reader.c) returns NULL at the end of the archive or on error, else a
   decoded header whose path / filename are NULL or NUL-terminated strings; the previous header is dead. */
LHAFileHeader *lha_reader_next_file(LHAReader *reader)
{
	__CPROVER_assert(reader == vg_reader, "the filter reads from the reader it was initialised with");
	vg_rd_calls++;
	if (nondet_bool()) { vg_rd_last = NULL; return NULL; }
	__CPROVER_havoc_object(&vg_hdr);
	__CPROVER_havoc_object(vg_hpath);
	__CPROVER_havoc_object(vg_hfile);
	vg_plen = nondet_size_t(); vg_flen = nondet_size_t();
	__CPROVER_assume(vg_plen < VG_HS && vg_flen < VG_HS);
	vg_hpath[vg_plen] = 0; vg_hfile[vg_flen] = 0;
	vg_hdr.path = nondet_bool() ? vg_hpath : NULL;
	vg_hdr.filename = nondet_bool() ? vg_hfile : NULL;
	vg_rd_last = &vg_hdr;
	return &vg_hdr;
}
#define malloc vg_malloc
#define free   vg_free
#define strlen vg_strlen
#define strcat vg_strcat
#include "src/filter.c"
#undef malloc
#undef free
#undef strlen
#undef strcat

static void vg_havoc(void)
{
	__CPROVER_havoc_object(vg_glob);
	__CPROVER_havoc_object(vg_str);
	__CPROVER_havoc_object(vg_hpath);
	__CPROVER_havoc_object(vg_hfile);
	__CPROVER_havoc_object(&vg_hdr);
	__CPROVER_havoc_object(&vg_filter);
	__CPROVER_havoc_object(vg_filters);
	vg_glen = nondet_size_t(); vg_slen = nondet_size_t(); vg_plen = nondet_size_t(); vg_flen = nondet_size_t();
	vg_alloc_live = 0; vg_allocs = 0; vg_frees = 0; vg_hit = 0; vg_rd_calls = 0;
	vg_mg_expect_glob = NULL; vg_mg_expect_str = NULL;
}

/* match_glob: memory safety (never reads beyond either string's NUL), loops terminate, recursion measure */
void h_match_glob(void)
{
	size_t go = nondet_size_t(), so = nondet_size_t();
	vg_havoc();
	__CPROVER_assume(go < VG_GN && so < VG_SN);
	match_glob(vg_glob + go, vg_str + so);
	VG_CANARY("match_glob");
}

/* lha_filter_init: three stores */
void h_filter_init(void)
{
	LHAFilter f; LHAReader *r; char **fl; unsigned n;
	lha_filter_init(&f, r, fl, n);
	__CPROVER_assert(f.reader == r && f.filters == fl && f.num_filters == n, "lha_filter_init stores its arguments");
	VG_CANARY("lha_filter_init");
}

static void vg_filter_setup(void)
{
	unsigned k;
	vg_havoc();
	vg_filter.reader = vg_reader; vg_filter.filters = vg_filters;
	for (k = 0; k < VG_NF; k++) {
		size_t o = nondet_size_t();
		__CPROVER_assume(o < VG_GN);
		vg_filters[k] = vg_glob + o;
	}
	vg_hdr.path = nondet_bool() ? vg_hpath : NULL;
	vg_hdr.filename = nondet_bool() ? vg_hfile : NULL;
}
void h_matches_filter(void)
{
	vg_filter_setup();
	matches_filter(&vg_filter, &vg_hdr);
	VG_CANARY("matches_filter");
}
void h_next_file(void)
{
	vg_filter_setup();
	lha_filter_next_file(&vg_filter);
	VG_CANARY("lha_filter_next_file");
}

/* ------------------------------------------------------------------------------------------------------
   Functional contract of match_glob (groups with -DVG_MG_FUN): the result is the textbook relation
       vg_m[i][j]  <=>  pattern suffix vg_glob[i..] matches name suffix vg_str[j..]
   where '*' matches any run of characters (also none), '?' exactly one, any other byte itself
   (case-sensitive), both strings ending at their FIRST NUL.  vg_m is computed here, bottom-up, from that
   definition; the contract `result == vg_m[offset(glob)][offset(str)]` is then proved inductively (loop
   invariants + recursive call replaced by the contract), so the cost does not grow with the recursion tree.
   BOUNDED by the arena: patterns and names of at most VG_GN-1 / VG_SN-1 arbitrary bytes. */
#ifdef VG_MG_FUN
void h_match_glob_functional(void)
{
	size_t go = nondet_size_t(), so = nondet_size_t();
	size_t k; int i, j;
	vg_havoc();
	__CPROVER_assume(vg_glen < VG_GN && vg_slen < VG_SN);
	for (k = 0; k < VG_GN; k++) __CPROVER_assume(k < vg_glen ? vg_glob[k] != 0 : 1);
	for (k = 0; k < VG_SN; k++) __CPROVER_assume(k < vg_slen ? vg_str[k] != 0 : 1);
	vg_glob[vg_glen] = 0; vg_str[vg_slen] = 0;
	for (i = VG_GN - 1; i >= 0; i--) {
		for (j = VG_SN - 1; j >= 0; j--) {
			_Bool v = 0;
			if ((size_t) i <= vg_glen && (size_t) j <= vg_slen) {
				if ((size_t) i == vg_glen) v = ((size_t) j == vg_slen);
				else if (vg_glob[i] == '*') v = vg_m[i + 1][j] || ((size_t) j < vg_slen && vg_m[i][j + 1]);
				else v = (size_t) j < vg_slen && (vg_glob[i] == '?' || vg_glob[i] == vg_str[j]) && vg_m[i + 1][j + 1];
			}
			vg_m[i][j] = v;
		}
	}
	__CPROVER_assume(go <= vg_glen && so <= vg_slen);
	match_glob(vg_glob + go, vg_str + so);
	VG_CANARY("match_glob functional");
}
#endif

/* Contract vocabulary of unit `exthdr` (lib/ext_header.c, lib/lha_endian.c).
   Include this BEFORE the woven lib/ext_header.c / lib/lha_endian.c (any harness that enforces or
   replaces their contracts needs it).  A harness may pre-define VG_HDR / VG_DATA_MAX to its own objects.

   VG_HDR        lvalue of the pinned LHAFileHeader arena; contracts require `header == &VG_HDR` and then
                 only ever name VG_HDR.field (DFCC pointer-equality trap, engine/README.md).
                 Default: the static object vg_hdr below.
   VG_DATA_MAX   constant cap on data_len of the variable-length (string) decoders and of the dispatcher
                 (keeps malloc(data_len + 2) from wrapping).  Default 0x100000 = LEVEL_3_MAX_HEADER_LEN: level-3
                 headers are capped at it and below level 3 every extended header has a 16-bit length.
   The extended-header bytes are NOT pinned to an arena: `data` is described by
   __CPROVER_is_fresh(data, n) - in an enforced group that is a fresh object of exactly n bytes (so a read
   or write outside data[0..n) is a pointer-check failure: the bounds are tight on both sides), at a
   replaced call site it is the obligation "data[0..n) is readable/writable" (the real pointer into
   raw_data satisfies it; nothing else is required of the caller's arena).

   Recipe for a unit that REPLACES lha_ext_header_decode / lha_decode_uint16.. by these contracts:
     #define VG_HDR <your pinned header lvalue>     (may be a member of a bigger arena object)
     #define VG_NO_WAS_FREED                         (CBMC 6.11 cannot assume was_freed, see ext_header.c.spec)
     #include "vg_exthdr.h"                          (brings the prophecy malloc stub and vg_malloc_ok)
     #include "lib/lha_endian.c" / "lib/ext_header.c" (woven)
   and in your contracts: establish VG_STR_IN() of the four string fields before the call, put vg_malloc_ok,
   vg_name_len and the header fields into assigns, the four strings into frees.  A scratch client with header and
   raw bytes in ONE object (struct { LHAFileHeader h; uint8_t raw[600]; }) was checked against this recipe: the
   preconditions are provable for a pointer into raw[], and after a failed/skipped decode the unchanged string
   can still be read and freed. */
#ifndef VG_EXTHDR_H
#define VG_EXTHDR_H
#include "vg_common.h"
#include "lha_file_header.h"

#ifndef VG_HDR
static LHAFileHeader vg_hdr;
#define VG_HDR vg_hdr
#endif
#ifndef VG_DATA_MAX
#define VG_DATA_MAX 0x100000 /* LEVEL_3_MAX_HEADER_LEN of lib/lha_file_header.c */
#endif

/* ghost output of ext_header_filename_decoder: length of the C string stored in header->filename
   (Skolem witness of "there is a terminator at or before data_len") */
size_t vg_name_len;
/* Skolem index: never assigned by anybody; nondeterministic at the entry of every DFCC group (statics are
   havocked by DFCC; vg_havoc() does it again), so a clause about element vg_k holds for every element. */
size_t vg_k;

/* Allocation failure as a prophecy.  vg_malloc_ok != 0 means "the next malloc call succeeds"; malloc consumes it
   and draws a new nondeterministic value, so every call can still fail or succeed independently (same behaviours
   as cbmc --malloc-may-fail --malloc-fail-null).  Because the outcome is readable in the PRE-state, contracts can
   make their frees clauses conditional on it; CBMC's DFCC has no other way to tell a caller "nothing was freed on
   this path" (was_freed cannot be assumed in replaced contracts in 6.11, see ext_header.c.spec).
   A harness that replaces contracts mentioning vg_malloc_ok must use this stub too (or define VG_NO_MALLOC_STUB
   and provide an equivalent one) and list vg_malloc_ok in the assigns clauses of functions that allocate. */
int vg_malloc_ok;
#ifndef VG_NO_MALLOC_STUB
/* ASSUME: malloc(n) returns NULL or a fresh, suitably sized heap block distinct from every live object and has
   no other effect; which of the two happens is nondeterministic (prophecy variable vg_malloc_ok), and requests
   above CBMC's __CPROVER_max_malloc_size always fail. */
void *malloc(size_t vg_n)
{
	_Bool vg_ok = vg_malloc_ok != 0;
	void *vg_res;
	vg_malloc_ok = nondet_bool() ? 1 : 0;
	if (!vg_ok || vg_n > __CPROVER_max_malloc_size)
		return (void *) 0;
	vg_res = __CPROVER_allocate(vg_n, 0);
	/* bookkeeping of CBMC's own malloc model (use-after-free and leak trackers; the new[] flag is never set in C) */
	__CPROVER_deallocated = (vg_res == __CPROVER_deallocated) ? 0 : __CPROVER_deallocated;
	__CPROVER_memory_leak = nondet_bool() ? vg_res : __CPROVER_memory_leak;
	return vg_res;
}
#endif

/* Mathematical little/big-endian values (sum of byte * 256^k), from the LHA format description;
   deliberately written with + and * instead of the code's | and <<. */
#define VG_B(p, k)     ((uint64_t)((uint8_t *)(p))[k])
#define VG_LE16(p)     ((uint16_t)(VG_B(p,0) + 256u * VG_B(p,1)))
#define VG_LE32(p)     ((uint32_t)(VG_B(p,0) + 256u * VG_B(p,1) + 65536u * VG_B(p,2) + 16777216u * VG_B(p,3)))
#define VG_LE64(p)     ((uint64_t)(VG_B(p,0) + 0x100ull * VG_B(p,1) + 0x10000ull * VG_B(p,2) + 0x1000000ull * VG_B(p,3) + \
                                   0x100000000ull * VG_B(p,4) + 0x10000000000ull * VG_B(p,5) + \
                                   0x1000000000000ull * VG_B(p,6) + 0x100000000000000ull * VG_B(p,7)))
#define VG_BE16(p)     ((uint16_t)(256u * VG_B(p,0) + VG_B(p,1)))
#define VG_BE32(p)     ((uint32_t)(16777216u * VG_B(p,0) + 65536u * VG_B(p,1) + 256u * VG_B(p,2) + VG_B(p,3)))

/* A string field of the header before a decoder runs: NULL, or a live heap block that free() accepts
   (base pointer of a malloc'd block, at least the terminator byte).  The decoders never read the old
   string, they only free it, so one readable byte is all that is asked of callers. */
#define VG_STR_IN(f)   ((f) == NULL || (__CPROVER_is_fresh((f), 1) && __CPROVER_is_freeable(f)))

/* "the old block was passed to free()": see the note in contracts/lib/ext_header.c.spec */
#ifdef VG_NO_WAS_FREED
#define VG_WAS_FREED(p) 1
#else
#define VG_WAS_FREED(p) __CPROVER_was_freed(p)
#endif

/* extended-header type codes and table minimum lengths of the LHA format (property C08 mechanism) */
#define VG_T_COMMON 0x00
#define VG_T_FILENAME 0x01
#define VG_T_PATH 0x02
#define VG_T_WINTS 0x41
#define VG_T_PERMS 0x50
#define VG_T_UIDGID 0x51
#define VG_T_GROUP 0x52
#define VG_T_USER 0x53
#define VG_T_TIME 0x54
#define VG_T_OS9 0xcc
#define VG_KNOWN_TYPE(n) ((n) == VG_T_COMMON || (n) == VG_T_FILENAME || (n) == VG_T_PATH || (n) == VG_T_WINTS || \
                          (n) == VG_T_PERMS || (n) == VG_T_UIDGID || (n) == VG_T_GROUP || (n) == VG_T_USER || \
                          (n) == VG_T_TIME || (n) == VG_T_OS9)
#define VG_MIN_LEN(n) ((n) == VG_T_COMMON ? 2u : (n) == VG_T_FILENAME ? 1u : (n) == VG_T_PATH ? 1u : \
                       (n) == VG_T_WINTS ? 24u : (n) == VG_T_PERMS ? 2u : (n) == VG_T_UIDGID ? 4u : \
                       (n) == VG_T_GROUP ? 1u : (n) == VG_T_USER ? 1u : (n) == VG_T_TIME ? 4u : 12u)
#define VG_STRING_TYPE(n) ((n) == VG_T_FILENAME || (n) == VG_T_PATH || (n) == VG_T_GROUP || (n) == VG_T_USER)

/* byte maps of the two sanitising decoders */
#define VG_NAME_MAP(b) ((uint8_t)(b) == (uint8_t)'/' ? (uint8_t)'_' : (uint8_t)(b))
#define VG_PATH_MAP(b) ((uint8_t)(b) == 0xffu ? (uint8_t)'/' : (uint8_t)(b))
/* The extended-header type table of lib/ext_header.c as the LHA format defines it: row k of ext_header_types
   points at the descriptor with the given code, decoder and minimum length.  (Usable only after the woven
   lib/ext_header.c has been included.)  DFCC makes statics nondeterministic, so the table lookup takes this
   as a precondition; group exthdr.table shows it for the initial values, group exthdr.lha_ext_header_decode
   re-checks it at the call site with the table objects excluded from DFCC's nondet-static. */
#define VG_ROW_OK(k, obj, code, fn, ml) \
	(ext_header_types[k] == &(obj) && (obj).num == (code) && (obj).decoder == (fn) && (obj).min_len == (ml))
#define VG_TABLE_OK ( \
	VG_ROW_OK(0, lha_ext_header_common, VG_T_COMMON, ext_header_common_decoder, 2) && \
	VG_ROW_OK(1, lha_ext_header_filename, VG_T_FILENAME, ext_header_filename_decoder, 1) && \
	VG_ROW_OK(2, lha_ext_header_path, VG_T_PATH, ext_header_path_decoder, 1) && \
	VG_ROW_OK(3, lha_ext_header_unix_perms, VG_T_PERMS, ext_header_unix_perms_decoder, 2) && \
	VG_ROW_OK(4, lha_ext_header_unix_uid_gid, VG_T_UIDGID, ext_header_unix_uid_gid_decoder, 4) && \
	VG_ROW_OK(5, lha_ext_header_unix_username, VG_T_USER, ext_header_unix_username_decoder, 1) && \
	VG_ROW_OK(6, lha_ext_header_unix_group, VG_T_GROUP, ext_header_unix_group_decoder, 1) && \
	VG_ROW_OK(7, lha_ext_header_unix_timestamp, VG_T_TIME, ext_header_unix_timestamp_decoder, 4) && \
	VG_ROW_OK(8, lha_ext_header_windows_timestamps, VG_T_WINTS, ext_header_windows_timestamps, 24) && \
	VG_ROW_OK(9, lha_ext_header_os9, VG_T_OS9, ext_header_os9_decoder, 12))
#endif

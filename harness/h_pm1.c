/* Unit pm1: lib/pm1_decoder.c together with the templates it includes (lib/bit_stream_reader.c,
   lib/pma_common.c).

   Callback wiring (see lha_pm1_init): the bit reader's callback is the decoder's own
   read_callback_wrapper with callback_data == the decoder; the wrapper calls the user's input
   callback stored in decoder->callback.  Hence, for this unit,
     - VG_CB, the shared bit_stream_reader.c.spec's name for "the bit reader's callback", is
       read_callback_wrapper (under contract below; replaced by its contract inside peek_bits),
     - the input-callback stub vg_cb of vg_decoder.h stands for the USER's callback decoder->callback,
     - BSR_OK additionally says that callback_data is the pinned decoder and that the decoder's
       user callback is the stub (that is what read_callback_wrapper needs when peek_bits calls it). */
#define VG_CB_MAX 4
#define VG_CB read_callback_wrapper
#ifdef VG_WRAPPER_EOF
#define vg_cb     vg_unused_cb          /* the shared stub is compiled under another name ...     */
#define vg_cb_ptr vg_unused_cb_ptr
#endif
#include "vg_decoder.h"
#undef BSR_OK

#ifdef VG_WRAPPER_EOF
#undef vg_cb
#undef vg_cb_ptr
/* ... in group pm1.read_callback_wrapper@eof only, and replaced by the same stub except that its
   answer is the ghost INPUT vg_cb_plan (arbitrary, fixed; the wrapper calls its callback exactly
   once), so that the wrapper's contract can say what happens when the input callback reports end
   of input. */
size_t vg_cb_plan;
size_t vg_cb(void *buf, size_t buf_len, void *user_data)
{
	size_t n = vg_cb_plan;
	uint8_t *p = (uint8_t *) buf;
	__CPROVER_assume(n <= buf_len);
	__CPROVER_assert(buf_len <= 4, "bit reader asks its callback for at most 4 bytes");
	if (n > 0) p[0] = nondet_uchar();
	if (n > 1) p[1] = nondet_uchar();
	if (n > 2) p[2] = nondet_uchar();
	if (n > 3) p[3] = nondet_uchar();
	return n;
}
size_t (*const vg_cb_ptr)(void *, size_t, void *) = vg_cb;
#endif

static size_t read_callback_wrapper(void *buf, size_t buf_len, void *user_data);

/* Addresses inside the arena vg_dec (declared by the woven pm1_decoder.c after its struct); they are
   needed by contracts of bit_stream_reader.c, which is included before the struct exists. */
extern void *const vg_pm1_self;                                      /* == &vg_dec          */
extern size_t (*const *const vg_pm1_ucb)(void *, size_t, void *);   /* == &vg_dec.callback */

#define BSR_OK(r) ((r)->bits <= 32 && (r)->callback == VG_CB && \
                   (r)->callback_data == vg_pm1_self && *vg_pm1_ucb == vg_cb)

/* ---- pm1 vocabulary ------------------------------------------------------------------------- */
#define VG_NROWS      32u                       /* rows of byte_decode_trees (checked in h_trees)  */
#define VG_ROWLEN     5u
#define VG_NBYTE_RANGES 6u                      /* entries of byte_ranges   (checked in h_trees)  */
#define VG_NCOPY_RANGES 15u                     /* entries of copy_ranges   (checked in h_trees)  */
#define VG_FLAT(o)    (byte_decode_trees[(o) / VG_ROWLEN][(o) % VG_ROWLEN])

/* p points to the first byte of one of the rows of the constant table */
#define VG_TREEP_OK(p) (__CPROVER_same_object((p), byte_decode_trees) && \
                        VG_OFF(p) < VG_NROWS * VG_ROWLEN && VG_OFF(p) % VG_ROWLEN == 0)
#define VG_TREEP_OK_OR_NULL(p) ((p) == NULL || VG_TREEP_OK(p))

/* One nybble c of the node at flat offset o: a leaf (a..f -> index 0..5 into byte_ranges) or a
   strictly forward offset to a non-empty node of the same row. */
#define VG_NIB_OK(o, c) ((c) >= 10u ? (c) - 10u < VG_NBYTE_RANGES \
                         : ((c) >= 1u && (o) % VG_ROWLEN + (c) < VG_ROWLEN && VG_FLAT((o) + (c)) != 0))
#define VG_NODE_OK(o)  (VG_FLAT(o) == 0 || \
                        (VG_NIB_OK((o), ((unsigned) VG_FLAT(o) >> 4) & 15u) && VG_NIB_OK((o), (unsigned) VG_FLAT(o) & 15u)))
/* Fact about the constant table (no state): every non-empty node of every row is well-formed. */
#define VG_TREES_OK   (__CPROVER_forall { unsigned vo_; (vo_ < VG_NROWS * VG_ROWLEN) ==> VG_NODE_OK(vo_) })

#define VG_BSR        BSR_OK(&vg_dec.bit_stream_reader)
#define VG_RING_OK    (vg_dec.ringbuf_pos < RING_BUFFER_SIZE)
/* History list: the invariant memory safety needs is "every link is a valid index into history[256]";
   it holds by type (uint8_t links) and is re-checked as bounds obligations wherever the list is
   touched, so it contributes no clause (see pma_common.c.spec for why the inverse-permutation
   property VG_HIST_OK cannot be carried as an invariant). */
/* Representation invariant of LHAPM1Decoder (established by lha_pm1_init, kept by every function) */
#define VG_DEC_OK     (VG_BSR && VG_RING_OK && VG_TREEP_OK_OR_NULL(vg_dec.byte_decode_tree))
/* same, once the 5-bit stream header has been read */
#define VG_DEC_RUN    (VG_BSR && VG_RING_OK && VG_TREEP_OK(vg_dec.byte_decode_tree))

#define VG_BITS_FRAME vg_dec.bit_stream_reader.bit_buffer, vg_dec.bit_stream_reader.bits

/* output window: buf points into the arena vg_out at offset <= OFFMAX */
#define VG_OUT_AT(b, OFFMAX) (__CPROVER_same_object((b), vg_out) && VG_OFF(b) <= (OFFMAX))

/* parameters of pma_common.c.spec: which VariableLengthTable the group's decode_variable_length
   calls use: VG_VLT == 1 copy_ranges (read_copy_command), VG_VLT == 2 byte_ranges (read_byte) */
#ifndef VG_VLT
#define VG_VLT 1
#endif
#if VG_VLT == 1
#define VG_VLT_TABLE copy_ranges
#define VG_VLT_LEN   VG_NCOPY_RANGES
#define VG_VLT_MAX   (2624 + (1 << 13) - 1)     /* largest history distance; < RING_BUFFER_SIZE (h_trees) */
#else
#define VG_VLT_TABLE byte_ranges
#define VG_VLT_LEN   VG_NBYTE_RANGES
#define VG_VLT_MAX   255                        /* history walk count fits uint8_t */
#endif

#include "lib/pm1_decoder.c"

HistoryLinkedList *const vg_hist = &vg_dec.history_list;
const VariableLengthTable *const vg_vlt = VG_VLT_TABLE;
void *const vg_pm1_self = &vg_dec;
size_t (*const *const vg_pm1_ucb)(void *, size_t, void *) = &vg_dec.callback;

static void vg_havoc(void)
{
	__CPROVER_havoc_object(&vg_dec);
	__CPROVER_havoc_object(vg_out);
}

/* bit reader template as instantiated by pm1 (callback == read_callback_wrapper) */
void h_peek_bits(void) { BitStreamReader *r; unsigned n; vg_havoc(); peek_bits(r, n); VG_CANARY("peek_bits"); }
/* Lemma (C13, "implicitly endless"): because read_callback_wrapper never reports end of input, the bit
   reader of this decoder cannot fail for requests of up to 25 bits (pm1 asks for at most 13); so a
   -pm1- stream never ends by itself and the bound on decoding is lha_decoder_read's length clamp. */
void h_peek_bits_total(void)
{
	BitStreamReader *r; unsigned n; int rv;
	vg_havoc();
	__CPROVER_assume(n <= 25);
	rv = peek_bits(r, n);
	__CPROVER_assert(rv >= 0, "pm1: peek_bits cannot fail for n <= 25 (zero fill at end of input)");
	VG_CANARY("peek_bits_total");
}
void h_read_bits(void) { BitStreamReader *r; unsigned n; vg_havoc(); read_bits(r, n); VG_CANARY("read_bits"); }
void h_read_bit(void) { BitStreamReader *r; vg_havoc(); read_bit(r); VG_CANARY("read_bit"); }

void h_read_callback_wrapper(void)
{
	void *b; size_t n; void *u;
	vg_havoc();
	read_callback_wrapper(b, n, u);
	VG_CANARY("read_callback_wrapper");
}
void h_init(void)
{
	void *d; LHADecoderCallback cb; void *cbd;
	vg_havoc();
	lha_pm1_init(d, cb, cbd);
	VG_CANARY("lha_pm1_init");
}
void h_decode_variable_length(void) { BitStreamReader *r; const VariableLengthTable *t; unsigned h; vg_havoc(); decode_variable_length(r, t, h); VG_CANARY("decode_variable_length"); }
void h_init_history_list(void) { HistoryLinkedList *l; vg_havoc(); init_history_list(l); VG_CANARY("init_history_list"); }
void h_find_in_history_list(void) { HistoryLinkedList *l; uint8_t c; vg_havoc(); find_in_history_list(l, c); VG_CANARY("find_in_history_list"); }
void h_update_history_list(void) { HistoryLinkedList *l; uint8_t b; vg_havoc(); update_history_list(l, b); VG_CANARY("update_history_list"); }
void h_read_start_header(void) { LHAPM1Decoder *d; vg_havoc(); read_start_header(d); VG_CANARY("read_start_header"); }
void h_outputted_byte(void) { LHAPM1Decoder *d; uint8_t b; vg_havoc(); outputted_byte(d, b); VG_CANARY("outputted_byte"); }
void h_read_copy_byte_count(void) { LHAPM1Decoder *d; vg_havoc(); read_copy_byte_count(d); VG_CANARY("read_copy_byte_count"); }
void h_read_bit_after_threshold(void) { LHAPM1Decoder *d; unsigned t; int def; vg_havoc(); read_bit_after_threshold(d, t, def); VG_CANARY("read_bit_after_threshold"); }
void h_read_copy_type_range(void) { LHAPM1Decoder *d; vg_havoc(); read_copy_type_range(d); VG_CANARY("read_copy_type_range"); }
void h_read_copy_command(void) { LHAPM1Decoder *d; uint8_t *b; vg_havoc(); read_copy_command(d, b); VG_CANARY("read_copy_command"); }
void h_read_byte(void) { LHAPM1Decoder *d; vg_havoc(); read_byte(d); VG_CANARY("read_byte"); }
void h_read_byte_block_count(void) { BitStreamReader *r; vg_havoc(); read_byte_block_count(r); VG_CANARY("read_byte_block_count"); }
void h_read_byte_block(void) { LHAPM1Decoder *d; uint8_t *b; vg_havoc(); read_byte_block(d, b); VG_CANARY("read_byte_block"); }
void h_read(void) { void *d; uint8_t *b; vg_havoc(); lha_pm1_read(d, b); VG_CANARY("lha_pm1_read"); }

/* read_byte_decode_index walks its tree row with a pointer loop variable; DFCC copes with this one
   (3 s), so it is an ordinary enforce group.  Its loop-contract obligations come out unnamed
   (read_byte_decode_index_wrapped_for_contract_checking.N: invariant base, 4 invariant-step clauses,
   decreases), which is what the plan's `expect` looks for. */
void h_read_byte_decode_index(void) { LHAPM1Decoder *d; vg_havoc(); read_byte_decode_index(d); VG_CANARY("read_byte_decode_index"); }

/* The constant tables, exhaustively (complete: they are constants of the code). */
void h_trees(void)
{
	unsigned k, j, steps;
	__CPROVER_assert(sizeof(byte_decode_trees) == VG_NROWS * VG_ROWLEN && sizeof(byte_decode_trees[0]) == VG_ROWLEN,
	                 "byte_decode_trees has 32 rows of 5 bytes");
	__CPROVER_assert(sizeof(byte_ranges) / sizeof(byte_ranges[0]) == VG_NBYTE_RANGES, "byte_ranges has 6 entries");
	__CPROVER_assert(sizeof(copy_ranges) / sizeof(copy_ranges[0]) == VG_NCOPY_RANGES, "copy_ranges has 15 entries");
	__CPROVER_assert((1u << 5) == VG_NROWS, "the 5-bit stream header selects an existing row");
	for (k = 0; k < VG_NROWS * VG_ROWLEN; ++k) {
		__CPROVER_assert(VG_NODE_OK(k), "every non-empty node: leaves a..f, child offsets forward inside the row to a non-empty node");
	}
	__CPROVER_assert(VG_TREES_OK, "VG_TREES_OK (quantified form used in contracts) holds");
	for (k = 0; k < VG_NROWS; ++k) {
		__CPROVER_assert((byte_decode_trees[k][0] == 0) == (k == VG_NROWS - 1), "only the last row is the special empty tree");
	}
	/* every bit path through every row ends in a leaf < 6 after at most 5 nodes, never leaving the row */
	for (k = 0; k + 1 < VG_NROWS; ++k) {
		unsigned child = 0;
		j = 0;
		for (steps = 0; steps < VG_ROWLEN; ++steps) {
			uint8_t node;
			__CPROVER_assert(j < VG_ROWLEN, "walk stays inside its row");
			node = byte_decode_trees[k][j];
			child = nondet_bool() ? ((unsigned) node >> 4) & 15u : (unsigned) node & 15u;
			if (child >= 10) break;
			__CPROVER_assert(child > 0, "walk moves forward");
			j += child;
		}
		__CPROVER_assert(child >= 10 && child - 10 < VG_NBYTE_RANGES, "walk ends in a leaf that indexes byte_ranges");
	}
	/* value ranges of the two variable-length tables (all fit the types they are used at) */
	for (k = 0; k < VG_NBYTE_RANGES; ++k) {
		__CPROVER_assert(byte_ranges[k].bits <= 31 && byte_ranges[k].offset + (1u << byte_ranges[k].bits) <= 256,
		                 "byte_ranges values fit uint8_t (history walk count)");
	}
	for (k = 0; k < VG_NCOPY_RANGES; ++k) {
		__CPROVER_assert(copy_ranges[k].bits <= 31 && copy_ranges[k].offset + (1u << copy_ranges[k].bits) <= RING_BUFFER_SIZE,
		                 "copy_ranges distances are smaller than the ring");
	}
	VG_CANARY("trees");
}

/* The LHADecoderType initialiser ties the contracts to what lha_decoder_new allocates. */
void h_dtype(void)
{
	__CPROVER_assert(lha_pm1_decoder.init == lha_pm1_init && lha_pm1_decoder.read == lha_pm1_read && lha_pm1_decoder.free == NULL,
	                 "decoder type uses the functions under contract");
	__CPROVER_assert(lha_pm1_decoder.extra_size == sizeof(LHAPM1Decoder) && sizeof(vg_dec) == sizeof(LHAPM1Decoder), "extra_size is the state struct");
	__CPROVER_assert(lha_pm1_decoder.max_read == OUTPUT_BUFFER_SIZE && sizeof(vg_out) == OUTPUT_BUFFER_SIZE &&
	                 OUTPUT_BUFFER_SIZE == MAX_BYTE_BLOCK_LEN + MAX_COPY_BLOCK_LEN, "max_read covers the largest read (one byte block + one copy)");
	__CPROVER_assert(lha_pm1_decoder.block_size > 0, "block_size positive");
	__CPROVER_assert((void *) &vg_dec == (void *) &vg_dec.bit_stream_reader, "bit reader is the first member (callback_data == decoder)");
	VG_CANARY("dtype");
}

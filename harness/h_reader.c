/* Unit: lib/lha_reader.c (high-level reader).  Every external module is a recording stub (ASSUME comments).
   Three kinds of group (see plan/reader.json):
     dfcc    the C07 chain do_decode / lha_reader_check / extract_file (do-while loop: only DFCC takes it)
     legacy  functions whose loop variables are pointers (is_dangerous_symlink, extract_placeholder_symlink,
             lha_reader_free): contract assumed/asserted around the real call, loops closed by loop contracts
     plain   loop-free functions: contract assumed/asserted around the real call. */
#include "vg_reader.h"
#include "lib/lha_reader.c"

/* ------------------------------------------------------------------ stubs: basic reader ------ */
/* ASSUME: lha_basic_reader_curr_file returns the header last produced by lha_basic_reader_next_file (NULL before
   the first call and after the end of the archive); it has no side effect. */
LHAFileHeader *lha_basic_reader_curr_file(LHABasicReader *r)
{
	__CPROVER_assert(r == VG_BR, "basic reader handle passed through unchanged");
	return vg_B.cur;
}

/* ASSUME: lha_basic_reader_next_file drops the basic reader's own reference on its previous header and returns
   NULL (then and for ever after: sticky end) or the next header, an object on which the READER holds no
   reference yet and which is on neither of the reader's lists. */
LHAFileHeader *lha_basic_reader_next_file(LHABasicReader *r)
{
	size_t i = nondet_size_t();
	__CPROVER_assert(r == VG_BR, "basic reader handle passed through unchanged");
	vg_B.next_calls++;
	if (vg_B.eof || nondet_bool()) {
		vg_B.eof = 1;
		vg_B.cur = NULL;
		return NULL;
	}
#ifdef VG_HISTORY
	i = vg_B.next_calls - 1;      /* history group: member number k is pool header k (all distinct, never seen before) */
#endif
	__CPROVER_assume(i < VG_NH && vg_ref[i] == 0);
	vg_B.cur = &vg_h[i];
	return vg_B.cur;
}

/* ASSUME: lha_basic_reader_decode returns NULL (no current member, unsupported method, allocation or init
   failure) or a fresh decoder at position 0 with CRC 0 whose declared stream length is the current header's
   uncompressed length (lha_decoder_new is under contract in unit `decoder`). */
LHADecoder *lha_basic_reader_decode(LHABasicReader *r)
{
	__CPROVER_assert(r == VG_BR, "basic reader handle passed through unchanged");
	__CPROVER_assert(!vg_D.live0, "C20: no live inner decoder is overwritten (at most one decoder per entry)");
	if (vg_B.cur == NULL || nondet_bool()) {
		return NULL;
	}
	vg_D.live0 = 1;
	vg_D.opens++;
	vg_D.total = 0;
	vg_D.crc = 0;
	vg_D.ended = 0;
	vg_D.slen = vg_B.cur->length;
	return &vg_dec[0];
}

/* ASSUME: lha_basic_reader_free releases the basic reader (and its reference on its current header). */
void lha_basic_reader_free(LHABasicReader *r)
{
	__CPROVER_assert(r == VG_BR, "basic reader handle passed through unchanged");
	__CPROVER_assert(vg_B.frees == 0, "C20: basic reader freed at most once");
	vg_B.frees++;
}

/* ------------------------------------------------------------------ stubs: decoder shell ------ */
/* ASSUME: lha_macbinary_passthrough returns NULL or a second decoder that reads from the inner one; its declared
   stream length is header->length.  It may already have consumed part of the inner stream (MacBinary header). */
LHADecoder *lha_macbinary_passthrough(LHADecoder *decoder, LHAFileHeader *header)
{
	size_t m = nondet_size_t();
	__CPROVER_assert(decoder == &vg_dec[0] && vg_D.live0, "pass-through is built on the live inner decoder");
	__CPROVER_assert(header == vg_rd.curr_file, "pass-through is given the current header");
	__CPROVER_assert(!vg_D.live1, "C20: no live pass-through decoder is overwritten");
	vg_D.pass_calls++;
	__CPROVER_assume(m <= vg_D.slen - vg_D.total);
	if (m > 0) {
		vg_D.crc = nondet_ushort();
	}
	vg_D.total += m;
	if (nondet_bool()) {
		vg_D.ended = 1;
	}
	if (nondet_bool()) {
		return NULL;
	}
	vg_D.live1 = 1;
	vg_D.ototal = 0;
	vg_D.oended = 0;
	vg_D.oslen = header->length;
	return &vg_dec[1];
}

/* ASSUME: lha_decoder_read contract as proved in unit `decoder` (group decoder.lha_decoder_read): returns
   n <= buf_len and n <= declared length - position; writes only buf[0..n); those bytes are the next bytes of the
   produced stream; position (get_length) advances by n and the CRC (get_crc) is updated over exactly these
   bytes; once a non-empty request was answered with 0 every later one is too.  The pass-through decoder obeys the
   same interface contract and, while doing so, may advance the inner decoder by any amount. */
size_t lha_decoder_read(LHADecoder *d, uint8_t *buf, size_t buf_len)
{
	size_t n = nondet_size_t(), m = nondet_size_t(), pos;
	__CPROVER_assert(d == &vg_dec[0] || d == &vg_dec[1], "C08: lha_decoder_read on a decoder object");
	__CPROVER_assert(d == &vg_dec[0] ? vg_D.live0 : vg_D.live1, "C08: lha_decoder_read on a live (not freed) decoder");
	__CPROVER_assert(__CPROVER_w_ok(buf, buf_len), "C08: buffer handed to lha_decoder_read is writable for buf_len bytes");
	__CPROVER_assume(n <= buf_len);
	__CPROVER_havoc_object(buf);
	if (d == &vg_dec[0]) {
		pos = vg_D.total;
		__CPROVER_assume(n <= vg_D.slen - vg_D.total);
		__CPROVER_assume(vg_D.ended ==> n == 0);
		if (n == 0 && buf_len > 0) {
			vg_D.ended = 1;
		}
		if (n > 0) {
			vg_D.crc = nondet_ushort();
		}
		if (vg_G >= pos && vg_G - pos < n) {
			buf[vg_G - pos] = vg_pbyte;
		}
		vg_D.total += n;
	} else {
		__CPROVER_assume(m <= vg_D.slen - vg_D.total);
		__CPROVER_assume(vg_D.ended ==> m == 0);
		if (m > 0) {
			vg_D.crc = nondet_ushort();
		}
		vg_D.total += m;
		if (nondet_bool()) {
			vg_D.ended = 1;
		}
		__CPROVER_assume(n <= vg_D.oslen - vg_D.ototal);
		__CPROVER_assume(vg_D.oended ==> n == 0);
		if (n == 0 && buf_len > 0) {
			vg_D.oended = 1;
		}
		vg_D.ototal += n;
	}
	return n;
}

/* ASSUME: getters return the running CRC / position (group decoder.getters). */
uint16_t lha_decoder_get_crc(LHADecoder *d)
{
	__CPROVER_assert(d == &vg_dec[0] && vg_D.live0, "C07: the CRC is taken from the live INNER decoder");
	return vg_D.crc;
}
size_t lha_decoder_get_length(LHADecoder *d)
{
	__CPROVER_assert(d == &vg_dec[0] && vg_D.live0, "C07: the length is taken from the live INNER decoder");
	return vg_D.total;
}

/* ASSUME: lha_decoder_free releases one decoder; it does not touch any other decoder. */
void lha_decoder_free(LHADecoder *d)
{
	__CPROVER_assert(d == &vg_dec[0] || d == &vg_dec[1], "C08: lha_decoder_free on a decoder object");
	if (d == &vg_dec[0]) {
		__CPROVER_assert(vg_D.live0, "C08/C20: inner decoder freed at most once");
		vg_D.live0 = 0;
		vg_D.frees0++;
	} else {
		__CPROVER_assert(vg_D.live1, "C08/C20: pass-through decoder freed at most once");
		vg_D.live1 = 0;
		vg_D.frees1++;
	}
}

/* ASSUME: lha_decoder_monitor attaches a progress callback (groups decoder.lha_decoder_monitor); recorded only. */
void lha_decoder_monitor(LHADecoder *d, LHADecoderProgressCallback cb, void *data)
{
	__CPROVER_assert(d == &vg_dec[0] && vg_D.live0, "monitor is attached to the live inner decoder");
	__CPROVER_assert(vg_D.total == 0, "C14: monitor is attached before anything was read");
	vg_D.mon_calls++;
	vg_D.mon_dec = d; vg_D.mon_cb = cb; vg_D.mon_data = data;
}

/* ------------------------------------------------------------------ stubs: header refcounts --- */
/* ASSUME: lha_file_header_add_ref / lha_file_header_free count references; the header object stays valid while
   the count is positive (lib/lha_file_header.c).  Recorded: the number of references the reader holds. */
void lha_file_header_add_ref(LHAFileHeader *h)
{
	__CPROVER_assert(VG_ISH(h), "C08: add_ref on a header object");
	vg_ref[VG_IDX(h)]++;
	vg_addref_calls++;
}
void lha_file_header_free(LHAFileHeader *h)
{
	__CPROVER_assert(VG_ISH(h), "C08: lha_file_header_free on a header object");
	__CPROVER_assert(vg_ref[VG_IDX(h)] > 0, "C08/C20: the reader releases only references it holds (no over-release)");
	vg_ref[VG_IDX(h)]--;
	vg_hfree_calls++;
}

/* ASSUME: lha_file_header_full_path returns NULL (allocation failure) or a fresh NUL-terminated heap string that
   the caller owns. */
char *lha_file_header_full_path(LHAFileHeader *h)
{
	__CPROVER_assert(h == vg_rd.curr_file && VG_ISH(h), "full path is built for the current header");
	if (nondet_bool()) {
		return NULL;
	}
	__CPROVER_assert(!vg_M.tmp_live, "one temporary path at a time");
	vg_M.tmp_live = 1;
	vg_M.tmp_allocs++;
	return vg_tmpname;
}

#ifndef VG_REAL_ALLOC
/* ASSUME: libc free, as an ownership recorder: only the temporary path and the reader allocation are heap
   objects here; each may be freed once, free(NULL) is a no-op, anything else is an invalid free. */
void free(void *p)
{
	if (p == NULL) {
		return;
	}
	if (p == (void *) vg_tmpname) {
		__CPROVER_assert(vg_M.tmp_live, "C08/C20: temporary path freed at most once");
		vg_M.tmp_live = 0;
		vg_M.tmp_frees++;
		return;
	}
	if (p == (void *) &vg_rd) {
		__CPROVER_assert(vg_M.rd_live, "C08/C20: reader structure freed at most once");
		vg_M.rd_live = 0;
		return;
	}
	__CPROVER_assert(0, "C08: free() of a pointer the reader does not own");
}
#endif

/* ------------------------------------------------------------------ stubs: libc strings ------- */
/* ASSUME: libc strlen.  The strings of pool headers are opaque here: their lengths are the ghost values
   vg_plen[i] / vg_flen[i]; the symlink target arena has its real length vg_tlen. */
size_t strlen(const char *s)
{
	size_t o = VG_OFF(s);
	if (__CPROVER_same_object(s, vg_pathbuf)) {
		__CPROVER_assert(o % 4 == 0 && o / 4 < VG_NH, "strlen: start of a path string");
		return vg_plen[o / 4];
	}
	if (__CPROVER_same_object(s, vg_fnbuf)) {
		__CPROVER_assert(o % 4 == 0 && o / 4 < VG_NH, "strlen: start of a filename string");
		return vg_flen[o / 4];
	}
	__CPROVER_assert(0, "C08: strlen on a NULL or unknown string");
	return 0;
}

/* ASSUME: libc strncmp; recorded, result arbitrary but a function of its arguments (one call per run). */
unsigned vg_strncmp_calls; const char *vg_strncmp_a, *vg_strncmp_b; size_t vg_strncmp_n; int vg_strncmp_r;
int strncmp(const char *a, const char *b, size_t n)
{
	__CPROVER_assert(a != NULL && b != NULL, "C08: strncmp on non-NULL strings");
	vg_strncmp_calls++;
	vg_strncmp_a = a; vg_strncmp_b = b; vg_strncmp_n = n;
	return vg_strncmp_r;
}

/* libc strcmp, executable model for the only use in lha_reader.c: comparison of the 6-byte compress_method
   array with the literal "-lhd-" (so at most 6 bytes of either argument are read). */
int strcmp(const char *a, const char *b)
{
	__CPROVER_assert(b[0] == '-' && b[1] == 'l' && b[2] == 'h' && b[3] == 'd' && b[4] == '-' && b[5] == 0,
	                 "[stub-limit] strcmp: second argument is LHA_COMPRESS_TYPE_DIR");
	if (a[0] != b[0]) return (unsigned char) a[0] < (unsigned char) b[0] ? -1 : 1;
	if (a[1] != b[1]) return (unsigned char) a[1] < (unsigned char) b[1] ? -1 : 1;
	if (a[2] != b[2]) return (unsigned char) a[2] < (unsigned char) b[2] ? -1 : 1;
	if (a[3] != b[3]) return (unsigned char) a[3] < (unsigned char) b[3] ? -1 : 1;
	if (a[4] != b[4]) return (unsigned char) a[4] < (unsigned char) b[4] ? -1 : 1;
	if (a[5] != b[5]) return 1;
	return 0;
}

/* ------------------------------------------------------------------ stubs: filesystem -------- */
/* ASSUME: lha_arch_* calls (lib/lha_arch_unix.c) succeed or fail arbitrarily; they do not touch library state.
   Recorded: number of calls, last arguments, global order. */
FILE *lha_arch_fopen(char *filename, int unix_uid, int unix_gid, int unix_perms)
{
	__CPROVER_assert(filename != NULL, "C08: lha_arch_fopen gets a file name");
	vg_F.fopens++; vg_F.seq++;
	vg_F.fopen_name = filename; vg_F.fopen_uid = unix_uid; vg_F.fopen_gid = unix_gid; vg_F.fopen_perms = unix_perms;
	if (nondet_bool()) {
		return NULL;
	}
	__CPROVER_assert(!vg_F.file_open, "C20: one output file at a time");
	vg_F.file_open = 1;
	vg_F.fopen_oks++;
	vg_F.wtotal = 0;
	return VG_FILE;
}
/* ASSUME: libc fclose / fwrite on the handle lha_arch_fopen returned; fwrite returns the count it accepted,
   smaller than asked only on error. */
int fclose(FILE *f)
{
	__CPROVER_assert(f == VG_FILE && vg_F.file_open, "C08/C20: fclose on the open output file, once");
	vg_F.file_open = 0;
	vg_F.fcloses++; vg_F.seq++;
	return nondet_int();
}
size_t fwrite(const void *p, size_t size, size_t count, FILE *f)
{
	size_t r = nondet_size_t();
	__CPROVER_assert(f == VG_FILE && vg_F.file_open, "C08: fwrite on the open output file");
	__CPROVER_assert(size == 1 && __CPROVER_r_ok(p, count), "C08: fwrite source range is readable");
	__CPROVER_assert((!vg_D.live1 && vg_G >= vg_F.wtotal && vg_G - vg_F.wtotal < count) ==>
	                 ((const uint8_t *) p)[vg_G - vg_F.wtotal] == vg_pbyte,
	                 "C07/C15: the bytes written are the next bytes of the produced stream, in order");
	__CPROVER_assume(r <= count);
	vg_F.wtotal += r;
	return r;
}
int lha_arch_mkdir(char *path, unsigned int unix_perms)
{
	__CPROVER_assert(path != NULL, "C08: lha_arch_mkdir gets a path");
	vg_F.mkdirs++; vg_F.seq++; vg_F.mkdir_path = path; vg_F.mkdir_mode = unix_perms;
	vg_F.mkdir_r = nondet_int();
	return vg_F.mkdir_r;
}
LHAFileType lha_arch_exists(char *filename)
{
	LHAFileType t;
	__CPROVER_assert(filename != NULL, "C08: lha_arch_exists gets a path");
	vg_F.exists++; vg_F.exists_path = filename;
	__CPROVER_assume(t == LHA_FILE_NONE || t == LHA_FILE_FILE || t == LHA_FILE_DIRECTORY || t == LHA_FILE_ERROR);
	vg_F.exists_r = (int) t;
	return t;
}
int lha_arch_chown(char *filename, int unix_uid, int unix_gid)
{
	__CPROVER_assert(filename != NULL, "C08: lha_arch_chown gets a path");
	vg_F.chowns++; vg_F.chown_at = ++vg_F.seq; vg_F.chown_path = filename; vg_F.chown_uid = unix_uid; vg_F.chown_gid = unix_gid;
	return nondet_int();
}
int lha_arch_chmod(char *filename, int unix_perms)
{
	__CPROVER_assert(filename != NULL, "C08: lha_arch_chmod gets a path");
	vg_F.chmods++; vg_F.chmod_at = ++vg_F.seq; vg_F.chmod_path = filename; vg_F.chmod_perms = unix_perms;
	return nondet_int();
}
int lha_arch_utime(char *filename, unsigned int timestamp)
{
	__CPROVER_assert(filename != NULL, "C08: lha_arch_utime gets a path");
	vg_F.utimes++; vg_F.utime_at = ++vg_F.seq; vg_F.utime_path = filename; vg_F.utime_ts = timestamp;
	return nondet_int();
}
int lha_arch_symlink(char *path, char *target)
{
	__CPROVER_assert(path != NULL, "C08: lha_arch_symlink gets a path");
	vg_F.symlinks++; vg_F.seq++; vg_F.symlink_path = path; vg_F.symlink_target = target;
	vg_F.symlink_r = nondet_int();
	return vg_F.symlink_r;
}

/* ------------------------------------------------------------------ set-up ------------------- */
static void vg_havoc(void)
{
	__CPROVER_havoc_object(&vg_rd);
	__CPROVER_havoc_object(vg_h);
	__CPROVER_havoc_object(vg_dec);
	__CPROVER_havoc_object(vg_tgt);
	__CPROVER_havoc_object(&vg_D);
	__CPROVER_havoc_object(&vg_B);
	__CPROVER_havoc_object(&vg_F);
	__CPROVER_havoc_object(&vg_M);
	__CPROVER_havoc_object(vg_ref);
	__CPROVER_havoc_object(vg_where);
	__CPROVER_havoc_object(vg_rank);
	vg_rank_bound = 1000000;
	__CPROVER_havoc_object(vg_plen);
	__CPROVER_havoc_object(vg_flen);
	__CPROVER_havoc_object(vg_ubuf);
	vg_G = nondet_size_t(); vg_pbyte = nondet_uchar(); vg_X = nondet_size_t(); vg_J = nondet_size_t();
	vg_w = 0; vg_w_set = 0; vg_k = 0;
	vg_rd.reader = VG_BR;
	vg_strncmp_calls = 0; vg_strncmp_r = nondet_int();
	vg_addref_calls = 0; vg_hfree_calls = 0;
	vg_n = nondet_size_t();
	__CPROVER_havoc_object(vg_seq);
}

/* ASSUME: header string fields are NULL or NUL-terminated heap strings owned by the header; lha_reader.c reads
   only symlink_target itself, so path / filename of pool header i are stand-in objects with ghost lengths. */
static void vg_pick_strings(void)
{
	size_t i;
	for (i = 0; i < VG_NH; ++i) {
		vg_h[i].path = nondet_bool() ? NULL : vg_pathbuf[i];
		vg_h[i].filename = nondet_bool() ? NULL : vg_fnbuf[i];
	}
}

/* Pointer-valued state is CHOSEN here rather than left to `requires` clauses: under DFCC an assumed clause that
   mixes pointer equalities with implications / disjunctions does not constrain (engine/README.md pitfalls).  The
   same facts are still written as `requires`, so they are checked wherever a contract replaces a call. */
static void vg_pick_decoder_config(int c)
{
	vg_D.live0 = (c != 0);
	vg_D.live1 = (c == 2);
	vg_rd.inner_decoder = (c == 0) ? NULL : &vg_dec[0];
	vg_rd.decoder = (c == 1) ? &vg_dec[0] : (c == 2) ? &vg_dec[1] : NULL;
}
static size_t vg_pick_index(void)
{
	size_t i = nondet_size_t();
	__CPROVER_assume(i < VG_NH);
	return i;
}
/* current entry of the C07 chain: a NORMAL entry is pool header 0 and is the basic reader's current header */
static void vg_pick_current0(void)
{
	if (vg_rd.curr_file_type == CURR_FILE_NORMAL) {
		vg_rd.curr_file = &vg_h[0];
		vg_B.cur = &vg_h[0];
	} else {
		vg_rd.curr_file = nondet_bool() ? NULL : &vg_h[vg_pick_index()];
		vg_B.cur = nondet_bool() ? NULL : &vg_h[vg_pick_index()];
	}
}
#define VG_POLICY_OK (vg_rd.dir_policy == LHA_READER_DIR_PLAIN || vg_rd.dir_policy == LHA_READER_DIR_END_OF_DIR || vg_rd.dir_policy == LHA_READER_DIR_END_OF_FILE)
#define VG_TYPE_OK (vg_rd.curr_file_type == CURR_FILE_START || vg_rd.curr_file_type == CURR_FILE_NORMAL || \
	vg_rd.curr_file_type == CURR_FILE_FAKE_DIR || vg_rd.curr_file_type == CURR_FILE_DEFERRED_SYMLINK || vg_rd.curr_file_type == CURR_FILE_EOF)

/* ------------------------------------------------------------------ C07 chain (dfcc) ---------- */
void h_do_decode(void)
{
	LHAReader *reader; FILE *output; int r;
	vg_havoc();
	output = nondet_bool() ? NULL : VG_FILE;
	vg_pick_decoder_config(nondet_bool() ? 1 : 2);
	vg_rd.curr_file = &vg_h[0];
	r = do_decode(reader, output);
	if (r != 0 && output != NULL) { VG_CANARY("do_decode: good verdict while extracting"); }
	if (r != 0 && output == NULL && VG_D2) { VG_CANARY("do_decode: good verdict through the pass-through decoder"); }
	if (r == 0 && output == NULL) { VG_CANARY("do_decode: bad verdict while testing"); }
	VG_CANARY("do_decode");
}

void h_open_decoder(void)
{
	LHAReader *reader; LHADecoderProgressCallback callback; void *callback_data; int r;
	vg_havoc();
	__CPROVER_assume(VG_TYPE_OK);
	vg_pick_decoder_config(0);
	vg_pick_current0();
	vg_D.frees0 = 0;
	r = open_decoder(reader, callback, callback_data);
	if (r != 0 && VG_D2) { VG_CANARY("open_decoder: pass-through"); }
	if (r == 0 && vg_D.frees0 == 1) { VG_CANARY("open_decoder: pass-through failed, inner decoder released again"); }
	VG_CANARY("open_decoder");
}

void h_check(void)
{
	LHAReader *reader; LHADecoderProgressCallback callback; void *callback_data; int r;
	vg_havoc();
	__CPROVER_assume(VG_TYPE_OK);
	vg_pick_decoder_config(0);
	vg_pick_current0();
	r = lha_reader_check(reader, callback, callback_data);
	if (r != 0 && vg_rd.curr_file_type == CURR_FILE_NORMAL && !VG_IS_DIR(vg_h[0])) { VG_CANARY("lha_reader_check: good verdict for a file member"); }
	if (r == 0 && (VG_D1 || VG_D2)) { VG_CANARY("lha_reader_check: bad verdict after decoding"); }
	if (r != 0 && VG_D0) { VG_CANARY("lha_reader_check: directory"); }
	VG_CANARY("lha_reader_check");
}

void h_extract_file(void)
{
	LHAReader *reader; char *filename; LHADecoderProgressCallback callback; void *callback_data; int r;
	vg_havoc();
	filename = nondet_bool() ? NULL : vg_userfn;
	__CPROVER_assume(VG_TYPE_OK);
	vg_pick_decoder_config(0);
	vg_pick_current0();
	vg_rd.curr_file = &vg_h[0];
	r = extract_file(reader, filename, callback, callback_data);
	if (r != 0 && filename == NULL) { VG_CANARY("extract_file: extracted under the header's own name"); }
	if (r == 0 && (VG_D1 || VG_D2) && vg_F.fcloses != 0) { VG_CANARY("extract_file: bad verdict after writing"); }
	VG_CANARY("extract_file");
}

/* ------------------------------------------------------------------ C10: is_dangerous_symlink -- */
/* ASSUME: a header's symlink_target is NULL or a NUL-terminated string (strdup result, lib/lha_file_header.c
   parse_symlink).  vg_tlen is the position of its first NUL; the arena has VG_TB bytes. */
static void vg_target_string(void)
{
	vg_tlen = nondet_size_t();
	__CPROVER_assume(vg_tlen < VG_TB);
	__CPROVER_assume(vg_tgt[vg_tlen] == 0);
	__CPROVER_assume(__CPROVER_forall { size_t j; (j < VG_TB) ==> (j < vg_tlen ==> vg_tgt[j] != 0) });
	__CPROVER_assume(vg_X < vg_tlen);
}

/* spec (from the property): dangerous <=> the target is absolute or has a path component equal to "..".
   Proved as two implications: result => (absolute or the recorded witness is a ".." component);
   (absolute or ANY position vg_X is the start of a ".." component) => result. */
void h_dangerous(void)
{
	int r;
	vg_havoc();
	vg_target_string();
	vg_h[0].symlink_target = nondet_bool() ? NULL : vg_tgt;
	r = is_dangerous_symlink(&vg_h[0]);
	__CPROVER_assert(vg_h[0].symlink_target == NULL ==> r == 0, "C10: no target, not a dangerous link");
	if (vg_h[0].symlink_target != NULL) {
		__CPROVER_assert(r != 0 ==> (vg_tgt[0] == '/' || (vg_w_set && VG_COMP(vg_w))),
		                 "C10: reported dangerous only if the target is absolute or has a '..' component (witness)");
		__CPROVER_assert((vg_tgt[0] == '/' || VG_COMP(vg_X)) ==> r != 0,
		                 "C10: every absolute target and every target with a '..' component (at any position) is reported dangerous");
	}
	VG_CANARY("is_dangerous_symlink");
}

/* ------------------------------------------------------------------ C15/C10: list insertion ---- */
void h_placeholder(void)
{
	int r; int ref0; LHAFileHeader *head0; unsigned fo, fc, ar;
	vg_havoc();
	vg_pick_strings();
	vg_rd.curr_file = &vg_h[0];
	vg_rd.deferred_symlinks = (vg_n == 0) ? NULL : &vg_h[vg_pick_index()];
	/* the deferred list is a well-formed list of pool headers, sorted by non-increasing path length ... */
	__CPROVER_assume(vg_n < VG_NH && VG_LIST_SEQ(vg_rd.deferred_symlinks) && VG_SEQ_SORTED);
	/* ... and the current entry is not on it (property quantifier: one extract per entry) */
	__CPROVER_assume(VG_SEQ_HAS_NOT(0));
	__CPROVER_assume(vg_J <= vg_n);
	__CPROVER_assume(!vg_F.file_open);
	ref0 = vg_ref[0]; head0 = vg_rd.deferred_symlinks; fo = vg_F.fopens; fc = vg_F.fcloses; ar = vg_addref_calls;
	__CPROVER_assume(ref0 < 1000);
	r = extract_placeholder_symlink(&vg_rd, vg_userfn);
	__CPROVER_assert(vg_F.fopens == fo + 1 && vg_F.fopen_name == vg_userfn && vg_F.fopen_uid == -1 && vg_F.fopen_gid == -1 && vg_F.fopen_perms == 0600,
	                 "C10: the placeholder is an empty private file (0600, no owner change) at the link's place");
	__CPROVER_assert(!vg_F.file_open && vg_F.fcloses == fc + (r != 0), "C20: placeholder file closed exactly once");
	if (r == 0) {
		__CPROVER_assert(vg_rd.deferred_symlinks == head0 && vg_ref[0] == ref0 && vg_addref_calls == ar && vg_k == 0,
		                 "C15: failure to create the placeholder defers nothing");
	} else {
		__CPROVER_assert(r == 1 && vg_ref[0] == ref0 + 1 && vg_addref_calls == ar + 1, "C20: exactly one reference is taken for the deferred entry");
		__CPROVER_assert(vg_k <= vg_n, "insertion position inside the list");
		/* the new list is the old sequence with header 0 spliced in at position vg_k: link number vg_J (arbitrary) is right */
		__CPROVER_assert((vg_J == 0 ? vg_rd.deferred_symlinks : vg_h[VG_NEWSEQ(vg_k, vg_J - 1)]._next) == &vg_h[VG_NEWSEQ(vg_k, vg_J)],
		                 "C15: every old entry stays on the list in its order and the new entry is on it exactly once (link vg_J)");
		__CPROVER_assert(vg_h[VG_NEWSEQ(vg_k, vg_n)]._next == NULL, "C15: the list still ends");
		__CPROVER_assert(vg_J < vg_n ==> VG_PLEN(VG_NEWSEQ(vg_k, vg_J)) >= VG_PLEN(VG_NEWSEQ(vg_k, vg_J + 1)),
		                 "C10/C15: the list stays sorted by non-increasing path length (pair vg_J)");
	}
	VG_CANARY("extract_placeholder_symlink");
}

/* ------------------------------------------------------------------ C20: lha_reader_free ------- */
/* Representation of the reader's header references (what the recorder vg_ref[] must equal): one reference per
   entry on the directory stack, one per entry on the deferred-symlink list, one for a re-presented current entry
   (FAKE_DIR / DEFERRED_SYMLINK), none otherwise.  C20 demands: every one of these references is released exactly
   once and vg_ref[i] == 0 for every i when lha_reader_free returns - in EVERY state of the reader.
   VG_FREE_CASE 0 is that general statement; 1 and 2 are the same harness restricted to "something is still deferred"
   and "the current entry is a re-presented one" (the two states the unrepaired code leaked in), kept as separate groups. */
#ifndef VG_FREE_CASE
#define VG_FREE_CASE 0
#endif
void h_free(void)
{
	int c = nondet_int();
	size_t cur = vg_pick_index();
	_Bool fake;
	vg_havoc();
	__CPROVER_assume(VG_TYPE_OK);
	__CPROVER_assume(0 <= c && c <= 2);
	vg_pick_decoder_config(c);
	vg_D.frees0 = 0; vg_D.frees1 = 0; vg_B.frees = 0; vg_M.rd_live = 1;
	vg_n2 = nondet_size_t(); vg_k2 = 0;
	__CPROVER_havoc_object(vg_seq2);
	vg_rd.dir_stack = (vg_n == 0) ? NULL : &vg_h[vg_pick_index()];
	vg_rd.deferred_symlinks = (vg_n2 == 0) ? NULL : &vg_h[vg_pick_index()];
	/* the directory stack and the deferred list are well-formed lists of pool headers without a common entry */
	__CPROVER_assume(VG_LIST_SEQ(vg_rd.dir_stack) && VG_LIST_SEQ2(vg_rd.deferred_symlinks) && VG_SEQS_DISJOINT);
	/* a re-presented current entry is on neither of them */
	fake = vg_rd.curr_file_type == CURR_FILE_FAKE_DIR || vg_rd.curr_file_type == CURR_FILE_DEFERRED_SYMLINK;
	vg_rd.curr_file = fake ? &vg_h[cur] : (nondet_bool() ? NULL : &vg_h[vg_pick_index()]);
	__CPROVER_assume(fake ==> (VG_SEQ_HAS_NOT(cur) && VG_SEQ2_HAS_NOT(cur)));
	__CPROVER_assume(vg_X < VG_NH && vg_J < VG_NH);
	/* references held on entry: 1 for each stack entry, 1 for each deferred entry, 1 for a re-presented current entry, */
	__CPROVER_assume(VG_FREE_INV && VG_FREE2_INV);           /* vg_k == 0, vg_k2 == 0 */
	__CPROVER_assume(fake ==> vg_ref[cur] == 1);
	/* and none on any other header */
	__CPROVER_assume((VG_SEQ_HAS_NOT(vg_X) && VG_SEQ2_HAS_NOT(vg_X) && !(fake && vg_X == cur)) ==> vg_ref[vg_X] == 0);
	vg_f0 = fake ? 1u : 0u;
#if VG_FREE_CASE == 1
	__CPROVER_assume(vg_n2 > 0);
#elif VG_FREE_CASE == 2
	__CPROVER_assume(fake);
#endif
	lha_reader_free(&vg_rd);
	__CPROVER_assert(!vg_D.live0 && !vg_D.live1 && vg_D.frees0 == (c != 0) && vg_D.frees1 == (c == 2),
	                 "C20: every decoder of the current entry is freed exactly once");
	__CPROVER_assert(vg_B.frees == 1 && !vg_M.rd_live, "C20: the basic reader and the reader structure are released exactly once");
	__CPROVER_assert(vg_hfree_calls == vg_n + vg_n2 + vg_f0,
	                 "C20: exactly one release per reference held (directory-stack entries, deferred entries, a re-presented current entry)");
	__CPROVER_assert(vg_J < vg_n ==> vg_ref[vg_seq[vg_J]] == 0, "C20: the reference on every directory-stack entry is released");
	__CPROVER_assert(vg_J < vg_n2 ==> vg_ref[vg_seq2[vg_J]] == 0, "C20: the reference on every deferred symlink is released");
	__CPROVER_assert((fake && vg_X == cur) ==> vg_ref[vg_X] == 0, "C20: the reference on a re-presented current entry is released (instance vg_X == current entry)");
	__CPROVER_assert(vg_ref[vg_X] == 0, "C20: after lha_reader_free the reader holds no reference on any header");
	if (vg_n > 0 && vg_n2 > 0 && fake) { VG_CANARY("lha_reader_free: stack, deferred list and re-presented entry all present"); }
	VG_CANARY("lha_reader_free");
}

/* ------------------------------------------------------------------ C15: lha_reader_next_file -- */
/* VG_NEXT_CASE (a complete case split on the state the call starts in) 0: archive member; 3: start or end; 2: a re-presented
   directory is current; 1: a re-presented deferred symlink is current (the reference the reader holds on the entry it
   leaves must be released: C20; the unrepaired code did not). */
#ifndef VG_NEXT_CASE
#define VG_NEXT_CASE 0
#endif
#if VG_NEXT_CASE == 0 || VG_NEXT_CASE == 2
#define VG_BRANCH_CANARY(x) VG_CANARY(x)
#define VG_DEFERRED_CANARY(x) VG_CANARY(x)
#elif VG_NEXT_CASE == 1
#define VG_BRANCH_CANARY(x) ((void) 0)     /* a deferred symlink is current: the stack is empty and the archive is at its end */
#define VG_DEFERRED_CANARY(x) VG_CANARY(x)
#else
#define VG_BRANCH_CANARY(x) ((void) 0)     /* with empty lists (start / end) these branches do not exist */
#define VG_DEFERRED_CANARY(x) ((void) 0)
#endif
void h_next_file(void)
{
	int c = nondet_int();
	CurrFileType t0; LHAFileHeader *cur0, *top0, *def0, *top0_next, *def0_next, *input, *r;
	LHAReaderDirPolicy pol;
	unsigned nc0, hf0, seq0; int refX0; size_t oc;
	_Bool outside, pop;
	vg_havoc();
	vg_pick_strings();
	__CPROVER_assume(VG_TYPE_OK);
	__CPROVER_assume(0 <= c && c <= 2);
	vg_pick_decoder_config(c);
	vg_D.frees0 = 0; vg_D.frees1 = 0;
	vg_rd.curr_file = nondet_bool() ? NULL : &vg_h[vg_pick_index()];
	vg_rd.dir_stack = nondet_bool() ? NULL : &vg_h[vg_pick_index()];
	vg_rd.deferred_symlinks = nondet_bool() ? NULL : &vg_h[vg_pick_index()];
	vg_B.cur = nondet_bool() ? NULL : &vg_h[vg_pick_index()];
	__CPROVER_assume(VG_RI_LISTS && VG_RI_CURR && VG_POLICY_OK);
	/* a decoder exists only for a member read from the archive */
	__CPROVER_assume(vg_rd.curr_file_type != CURR_FILE_NORMAL ==> c == 0);
#if VG_NEXT_CASE == 0
	__CPROVER_assume(vg_rd.curr_file_type == CURR_FILE_NORMAL);
#elif VG_NEXT_CASE == 3
	__CPROVER_assume(vg_rd.curr_file_type == CURR_FILE_START || vg_rd.curr_file_type == CURR_FILE_EOF);
#elif VG_NEXT_CASE == 2
	__CPROVER_assume(vg_rd.curr_file_type == CURR_FILE_FAKE_DIR);
#else
	__CPROVER_assume(vg_rd.curr_file_type == CURR_FILE_DEFERRED_SYMLINK);
#endif
	__CPROVER_assume(vg_X < VG_NH);
	t0 = vg_rd.curr_file_type; cur0 = vg_rd.curr_file; top0 = vg_rd.dir_stack; def0 = vg_rd.deferred_symlinks;
	top0_next = top0 != NULL ? top0->_next : NULL; def0_next = def0 != NULL ? def0->_next : NULL;
	pol = vg_rd.dir_policy; nc0 = vg_B.next_calls; hf0 = vg_hfree_calls; seq0 = vg_F.seq; refX0 = vg_ref[vg_X];
	oc = cur0 != NULL ? VG_IDX(cur0) : 0;

	r = lha_reader_next_file(&vg_rd);

	input = vg_B.cur;
	__CPROVER_assert(VG_D0 && vg_D.frees0 == (c != 0) && vg_D.frees1 == (c == 2),
	                 "C15/C20: the decoder of the entry that is left is closed on every advance, each decoder freed exactly once");
	__CPROVER_assert(vg_F.seq == seq0, "C10: advancing touches no filesystem object");
	__CPROVER_assert(r == vg_rd.curr_file, "the entry returned is the current entry");
	if (t0 == CURR_FILE_EOF) {
		__CPROVER_assert(r == NULL && vg_rd.curr_file_type == CURR_FILE_EOF && vg_B.next_calls == nc0 && vg_hfree_calls == hf0 &&
		                 vg_rd.dir_stack == top0 && vg_rd.deferred_symlinks == def0,
		                 "C15: after the end is reached every further request reports end and changes nothing");
	} else {
		__CPROVER_assert(vg_B.next_calls == nc0 + ((t0 == CURR_FILE_START || t0 == CURR_FILE_NORMAL) ? 1u : 0u),
		                 "C15: the archive is advanced exactly once per real member, and not at all while re-presented entries are handed out");
		/* where the interface documents a re-presented directory */
		outside = input != NULL && (input->path == NULL || vg_strncmp_r != 0);
		pop = top0 != NULL && (input == NULL || (pol == LHA_READER_DIR_END_OF_DIR && outside) ||
		                       (pol != LHA_READER_DIR_END_OF_DIR && pol != LHA_READER_DIR_END_OF_FILE));
		if (top0 != NULL && input != NULL && input->path != NULL && pol == LHA_READER_DIR_END_OF_DIR) {
			__CPROVER_assert(vg_strncmp_calls == 1 && vg_strncmp_a == input->path && vg_strncmp_b == top0->path &&
			                 vg_strncmp_n == vg_plen[VG_IDX(top0)],
			                 "C15: 'inside the directory' = the new entry's path starts with the whole path of the directory on top of the stack");
		}
		if (pop) {
			__CPROVER_assert(r == top0 && vg_rd.curr_file_type == CURR_FILE_FAKE_DIR && vg_rd.dir_stack == top0_next &&
			                 vg_rd.deferred_symlinks == def0 && lha_reader_current_is_fake(&vg_rd),
			                 "C15: an extracted directory is re-presented at end of archive (both deferring policies) or at the first entry outside it (END_OF_DIR), once: it leaves the stack");
			if (pol == LHA_READER_DIR_END_OF_DIR && input != NULL) { VG_BRANCH_CANARY("next_file: directory re-presented before an outside entry"); }
			if (pol == LHA_READER_DIR_END_OF_FILE) { VG_BRANCH_CANARY("next_file: directory re-presented at end of archive"); }
		} else if (input != NULL) {
			__CPROVER_assert(r == input && vg_rd.curr_file_type == CURR_FILE_NORMAL && vg_rd.dir_stack == top0 &&
			                 vg_rd.deferred_symlinks == def0 && !lha_reader_current_is_fake(&vg_rd),
			                 "C15: otherwise the next member of the archive is presented and the lists are untouched");
			if (top0 != NULL && pol == LHA_READER_DIR_END_OF_DIR) { VG_BRANCH_CANARY("next_file: member inside the top directory"); }
		} else if (def0 != NULL) {
			__CPROVER_assert(r == def0 && vg_rd.curr_file_type == CURR_FILE_DEFERRED_SYMLINK && vg_rd.deferred_symlinks == def0_next &&
			                 r->_next == NULL && lha_reader_current_is_fake(&vg_rd),
			                 "C15: deferred symlinks are re-presented one by one from the head of the list, each leaving the list");
			__CPROVER_assert(vg_rd.dir_stack == NULL && vg_B.cur == NULL,
			                 "C10/C15: a deferred symlink is presented only after every archive member and every pending directory");
			__CPROVER_assert(def0_next != NULL ==> VG_PLEN(VG_IDX(r)) >= VG_PLEN(VG_IDX(def0_next)),
			                 "C10: longest path first: the entry presented is at least as long as the next one");
			if (def0_next != NULL) { VG_DEFERRED_CANARY("next_file: deferred symlink presented, more waiting"); }
		} else {
			__CPROVER_assert(r == NULL && vg_rd.curr_file_type == CURR_FILE_EOF, "C15: nothing left: end of archive");
			VG_CANARY("next_file: end reached");
		}
		__CPROVER_assert((pol == LHA_READER_DIR_END_OF_FILE && input != NULL) ==> vg_rd.curr_file_type != CURR_FILE_FAKE_DIR,
		                 "C15: END_OF_FILE policy: no directory is re-presented before the end of the archive");
		__CPROVER_assert((pol == LHA_READER_DIR_END_OF_DIR && input != NULL && !outside) ==> vg_rd.curr_file_type != CURR_FILE_FAKE_DIR,
		                 "C15: END_OF_DIR policy: no directory is re-presented while entries inside it keep coming");
		/* references */
		__CPROVER_assert(vg_hfree_calls == hf0 + ((t0 == CURR_FILE_FAKE_DIR || t0 == CURR_FILE_DEFERRED_SYMLINK) ? 1u : 0u) &&
		                 vg_ref[vg_X] == refX0 - (((t0 == CURR_FILE_FAKE_DIR || t0 == CURR_FILE_DEFERRED_SYMLINK) && vg_X == oc) ? 1 : 0),
		                 "C20: the reference on a re-presented entry (directory or deferred symlink) is released when it is left; no other reference changes");
		/* the representation invariant holds again, with the labelling updated for the entry left and the entry presented */
		if (cur0 != NULL && vg_where[oc] == 3) {
			vg_where[oc] = 0;
		}
		if (r != NULL && (vg_rd.curr_file_type == CURR_FILE_FAKE_DIR || vg_rd.curr_file_type == CURR_FILE_DEFERRED_SYMLINK)) {
			vg_where[VG_IDX(r)] = 3;
		}
		__CPROVER_assert(VG_RI_LISTS, "C15/C20: list invariant (shape, sortedness, one reference per listed or re-presented entry, none otherwise) is re-established");
		__CPROVER_assert(VG_RI_CURR, "C15: current-entry invariant is re-established");
	}
	VG_CANARY("lha_reader_next_file");
}

/* ------------------------------------------------------------------ small loop-free functions -- */
void h_close_decoder(void)
{
	int c = nondet_int();
	LHAReader snap;
	vg_havoc();
	/* c == 3 (inner decoder live, decoder NULL) is no state of the reader any more; close_decoder copes with it all the same */
	__CPROVER_assume(0 <= c && c <= 3);
	vg_pick_decoder_config(c);
	vg_D.frees0 = 0; vg_D.frees1 = 0;
	snap = vg_rd;
	close_decoder(&vg_rd);
	__CPROVER_assert(VG_D0, "C15/C20: no decoder is left attached to the reader");
	__CPROVER_assert(vg_D.frees0 == (c != 0) && vg_D.frees1 == (c == 2), "C20: each live decoder is freed exactly once (also the inner one left behind by a failed pass-through)");
	__CPROVER_assert(vg_rd.curr_file == snap.curr_file && vg_rd.curr_file_type == snap.curr_file_type && vg_rd.dir_stack == snap.dir_stack &&
	                 vg_rd.deferred_symlinks == snap.deferred_symlinks && vg_rd.dir_policy == snap.dir_policy && vg_rd.reader == snap.reader,
	                 "frame: nothing else in the reader changes");
	VG_CANARY("close_decoder");
}

/* lha_reader_read.  VG_READ_CASE 0: one call from every decoder state of the reader (nothing open, plain decoder,
   pass-through on top of the inner decoder).  1: two calls in a row on a member for which nothing is open yet - the
   history "first attempt fails to open a decoder, caller reads again" (the unrepaired open_decoder left the inner
   decoder behind when the MacBinary pass-through failed, and the second call overwrote it). */
#ifndef VG_READ_CASE
#define VG_READ_CASE 0
#endif
void h_read(void)
{
	int c = nondet_int(); size_t len = nondet_size_t(), r, total0; unsigned opens0; CurrFileType t0;
	vg_havoc();
	__CPROVER_assume(VG_TYPE_OK);
#if VG_READ_CASE == 0
	__CPROVER_assume(0 <= c && c <= 2);
#else
	c = 0;
#endif
	vg_pick_decoder_config(c);
	vg_pick_current0();
	__CPROVER_assume(vg_rd.curr_file_type != CURR_FILE_NORMAL ==> c == 0);
	__CPROVER_assume(c != 0 ==> VG_DVIEW);
	__CPROVER_assume(len <= sizeof(vg_ubuf));
	vg_D.frees0 = 0; vg_D.frees1 = 0;
	total0 = vg_D.total; opens0 = vg_D.opens; t0 = vg_rd.curr_file_type;
	r = lha_reader_read(&vg_rd, vg_ubuf, len);
	__CPROVER_assert(r <= len, "C08/C15: never more bytes than asked for");
	__CPROVER_assert(t0 != CURR_FILE_NORMAL ==> (r == 0 && VG_D0 && vg_D.opens == opens0),
	                 "C15: entries the reader re-presents (and no entry at all) have no data: 0, nothing opened");
	__CPROVER_assert((c == 1 || c == 2) ==> (vg_D.opens == opens0 && (c == 1 ? VG_D1 : VG_D2)),
	                 "C15/C20: an open decoder is reused: at most one decoder per entry");
	__CPROVER_assert(c == 0 ==> (vg_D.opens - opens0 <= 1 && (VG_D0 || VG_D1 || VG_D2)),
	                 "C15/C20: the first read opens at most one decoder and leaves a state of the reader (no half-open decoder)");
	__CPROVER_assert(vg_D.frees0 == ((vg_D.opens != opens0 && VG_D0) ? 1u : 0u) && vg_D.frees1 == 0,
	                 "C20: a decoder is released here only when the pass-through on top of it could not be built");
	__CPROVER_assert((c == 1 && vg_G >= total0 && vg_G - total0 < r) ==> vg_ubuf[vg_G - total0] == vg_pbyte,
	                 "C15: the bytes handed to the caller are the next bytes of the member's produced stream, in order");
	__CPROVER_assert(c == 1 ==> vg_D.total == total0 + r, "C15: the member's stream position advances by exactly the bytes returned");
#if VG_READ_CASE == 1
	{
		_Bool was_open = !VG_D0; unsigned opens1 = vg_D.opens; size_t r2;
		if (VG_D0 && vg_D.opens != opens0) { VG_CANARY("lha_reader_read: second read after a failed pass-through"); }
		/* the stub lha_basic_reader_decode asserts that no live inner decoder is overwritten */
		r2 = lha_reader_read(&vg_rd, vg_ubuf, len);
		__CPROVER_assert(r2 <= len && (VG_D0 || VG_D1 || VG_D2), "C15/C20: a second read leaves a state of the reader again");
		__CPROVER_assert(was_open ==> vg_D.opens == opens1, "C15/C20: once a decoder is open, further reads reuse it");
		__CPROVER_assert((vg_D.live0 ? 1u : 0u) + vg_D.frees0 == vg_D.opens - opens0,
		                 "C20: every inner decoder created for this member is either still attached or has been released");
	}
#endif
	VG_CANARY("lha_reader_read");
}

void h_end_of_top_dir(void)
{
	int r; LHAReader snap; LHAFileHeader *top, *input; unsigned bn0;
	vg_havoc();
	vg_pick_strings();
	vg_rd.dir_stack = nondet_bool() ? NULL : &vg_h[vg_pick_index()];
	vg_B.cur = nondet_bool() ? NULL : &vg_h[vg_pick_index()];
	/* directory headers always carry a path (lib/lha_file_header.c sanity check; extract_directory pushes only those) */
	__CPROVER_assume(vg_rd.dir_stack != NULL ==> vg_rd.dir_stack->path != NULL);
	__CPROVER_assume(VG_POLICY_OK);
	snap = vg_rd; top = vg_rd.dir_stack; input = vg_B.cur; bn0 = vg_B.next_calls;
	r = end_of_top_dir(&vg_rd);
	__CPROVER_assert(top == NULL ==> r == 0, "C15: no pending directory, nothing to re-present");
	__CPROVER_assert((top != NULL && input == NULL) ==> r != 0, "C15: at end of archive every pending directory is re-presented (both deferring policies)");
	__CPROVER_assert((top != NULL && input != NULL && vg_rd.dir_policy == LHA_READER_DIR_END_OF_FILE) ==> r == 0,
	                 "C15: END_OF_FILE: not before the end of the archive");
	if (top != NULL && input != NULL && vg_rd.dir_policy == LHA_READER_DIR_END_OF_DIR) {
		__CPROVER_assert(input->path == NULL ==> r != 0, "C15: END_OF_DIR: an entry without a path is outside every directory");
		if (input->path != NULL) {
			__CPROVER_assert(vg_strncmp_calls == 1 && vg_strncmp_a == input->path && vg_strncmp_b == top->path && vg_strncmp_n == vg_plen[VG_IDX(top)],
			                 "C15: END_OF_DIR: 'inside' = the entry's path starts with the whole path of the top directory");
			__CPROVER_assert((r != 0) == (vg_strncmp_r != 0), "C15: END_OF_DIR: re-present exactly when the entry is outside the top directory");
			VG_CANARY("end_of_top_dir: prefix test");
		}
	}
	__CPROVER_assert(vg_rd.curr_file == snap.curr_file && vg_rd.curr_file_type == snap.curr_file_type && vg_rd.dir_stack == snap.dir_stack &&
	                 vg_rd.deferred_symlinks == snap.deferred_symlinks && vg_rd.dir_policy == snap.dir_policy && vg_rd.decoder == snap.decoder &&
	                 vg_rd.inner_decoder == snap.inner_decoder && vg_B.next_calls == bn0, "frame: a pure query");
	VG_CANARY("end_of_top_dir");
}

void h_set_directory_metadata(void)
{
	int r; unsigned u0, o0, m0, s0, mk0, sl0, fo0; size_t i = vg_pick_index();
	vg_havoc();
	u0 = vg_F.utimes; o0 = vg_F.chowns; m0 = vg_F.chmods; s0 = vg_F.seq; mk0 = vg_F.mkdirs; sl0 = vg_F.symlinks; fo0 = vg_F.fopens;
	__CPROVER_assume(s0 < 1000);
	r = set_directory_metadata(&vg_h[i], vg_userfn);
	__CPROVER_assert(VG_META_DONE(vg_h[i], (char *) vg_userfn, u0, o0, m0),
	                 "C10: time stamp, owner and permissions recorded in the header are applied to the given path and to nothing else, permissions last");
	__CPROVER_assert(vg_F.mkdirs == mk0 && vg_F.symlinks == sl0 && vg_F.fopens == fo0, "C10: nothing is created");
	__CPROVER_assert(r == 0 ==> VG_HAVE(vg_h[i], LHA_FILE_UNIX_PERMS), "failure is reported only for a failed permission change");
	VG_CANARY("set_directory_metadata");
}

void h_misc(void)
{
	LHAReaderDirPolicy p; LHAReader snap;
	vg_havoc();
	__CPROVER_assume(VG_TYPE_OK);
	snap = vg_rd;
	__CPROVER_assert((lha_reader_current_is_fake(&vg_rd) != 0) ==
	                 (vg_rd.curr_file_type == CURR_FILE_FAKE_DIR || vg_rd.curr_file_type == CURR_FILE_DEFERRED_SYMLINK),
	                 "C15: exactly the entries the reader re-presents on its own are reported as fake");
	lha_reader_set_dir_policy(&vg_rd, p);
	__CPROVER_assert(vg_rd.dir_policy == p && vg_rd.curr_file == snap.curr_file && vg_rd.curr_file_type == snap.curr_file_type &&
	                 vg_rd.dir_stack == snap.dir_stack && vg_rd.deferred_symlinks == snap.deferred_symlinks && vg_rd.decoder == snap.decoder &&
	                 vg_rd.inner_decoder == snap.inner_decoder && vg_rd.reader == snap.reader,
	                 "C15: selecting a policy changes the policy and nothing else");
	VG_CANARY("current_is_fake / set_dir_policy");
}

/* ------------------------------------------------------------------ extract_directory (dfcc) --- */
void h_extract_directory(void)
{
	LHAReader *reader; char *path; int r; int minrank;
	vg_havoc();
	vg_pick_strings();
	path = nondet_bool() ? NULL : vg_userfn;
	vg_rd.curr_file = &vg_h[0];
	vg_rd.dir_stack = nondet_bool() ? NULL : &vg_h[vg_pick_index()];
	vg_rd.deferred_symlinks = nondet_bool() ? NULL : &vg_h[vg_pick_index()];
	vg_B.cur = &vg_h[0];
	vg_rd.curr_file_type = CURR_FILE_NORMAL;
	__CPROVER_assume(path != NULL || vg_h[0].path != NULL);
	/* list invariant holds, the current entry is a member on which the reader holds no reference yet (one extract per entry) */
	__CPROVER_assume(VG_RI_LISTS && VG_RI_CURR && VG_POLICY_OK && vg_where[0] == 0 && vg_h[0].path != NULL);
	r = extract_directory(reader, path);
	/* the list invariant holds again with the pushed header labelled and ranked in front of the old stack */
	if (vg_rd.dir_stack == &vg_h[0]) {
		/* old top (now the successor) has the smallest rank of the stack */
		minrank = vg_h[0]._next != NULL ? vg_rank[VG_IDX(vg_h[0]._next)] : 1;
		vg_where[0] = 1;
		vg_rank[0] = minrank - 1;
		vg_rank_bound++;
		VG_CANARY("extract_directory: pushed");
	}
	__CPROVER_assert(VG_RI_LISTS && VG_RI_CURR, "C15/C20: list invariant re-established after extract_directory");
	VG_CANARY("extract_directory");
}

/* ------------------------------------------------------------------ extract_symlink (legacy) ---- */
#define VG_HDR_EQ(a, b) ((a)._refcount == (b)._refcount && (a)._next == (b)._next && (a).path == (b).path && (a).filename == (b).filename && \
	(a).symlink_target == (b).symlink_target && (a).compress_method[0] == (b).compress_method[0] && (a).compress_method[1] == (b).compress_method[1] && \
	(a).compress_method[2] == (b).compress_method[2] && (a).compress_method[3] == (b).compress_method[3] && (a).compress_method[4] == (b).compress_method[4] && \
	(a).compress_method[5] == (b).compress_method[5] && (a).compressed_length == (b).compressed_length && (a).length == (b).length && \
	(a).header_level == (b).header_level && (a).os_type == (b).os_type && (a).crc == (b).crc && (a).timestamp == (b).timestamp && \
	(a).raw_data == (b).raw_data && (a).raw_data_len == (b).raw_data_len && (a).extra_flags == (b).extra_flags && (a).unix_perms == (b).unix_perms && \
	(a).unix_uid == (b).unix_uid && (a).unix_gid == (b).unix_gid && (a).os9_perms == (b).os9_perms && (a).unix_username == (b).unix_username && \
	(a).unix_group == (b).unix_group && (a).common_crc == (b).common_crc && (a).win_creation_time == (b).win_creation_time && \
	(a).win_modification_time == (b).win_modification_time && (a).win_access_time == (b).win_access_time)
/* VG_XS_CASE 0: functional contract; 2: its frame; 1: C20 obligation that the temporary path string is released on every way out */
#ifndef VG_XS_CASE
#define VG_XS_CASE 0
#endif
static void vg_symlink_state(void)
{
	vg_target_string();
	vg_rd.curr_file = &vg_h[0];
	vg_h[0].symlink_target = vg_tgt;
	vg_rd.deferred_symlinks = (vg_n == 0) ? NULL : &vg_h[vg_pick_index()];
	__CPROVER_assume(VG_DEFERRED_PRE);
	__CPROVER_assume(vg_J <= vg_n);
	__CPROVER_assume(!vg_F.file_open && !vg_M.tmp_live);
	__CPROVER_assume(vg_ref[0] >= 0 && vg_ref[0] < 1000);
}
void h_extract_symlink(void)
{
	char *filename; int r; CurrFileType t;
	unsigned sl0, fo0, fc0, ar0, ta0; int ref0; LHAFileHeader *head0;
	LHAReader snap; LHAFileHeader hs; size_t y = vg_pick_index(); int refy; char tx;
	unsigned hf0, mk0, ut0, co0, cm0, dopens, df0, df1, dm0, dp0, bn0, bf0;
	vg_havoc();
	vg_pick_strings();
	vg_symlink_state();
	filename = nondet_bool() ? NULL : vg_userfn;
	__CPROVER_assume(vg_rd.curr_file_type == CURR_FILE_NORMAL || vg_rd.curr_file_type == CURR_FILE_DEFERRED_SYMLINK);
	t = vg_rd.curr_file_type;
	sl0 = vg_F.symlinks; fo0 = vg_F.fopens; fc0 = vg_F.fcloses; ar0 = vg_addref_calls; ta0 = vg_M.tmp_allocs; ref0 = vg_ref[0]; head0 = vg_rd.deferred_symlinks;
	snap = vg_rd; hs = vg_h[y]; refy = vg_ref[y]; tx = vg_tgt[vg_X]; hf0 = vg_hfree_calls; mk0 = vg_F.mkdirs; ut0 = vg_F.utimes; co0 = vg_F.chowns; cm0 = vg_F.chmods;
	dopens = vg_D.opens; df0 = vg_D.frees0; df1 = vg_D.frees1; dm0 = vg_D.mon_calls; dp0 = vg_D.pass_calls; bn0 = vg_B.next_calls; bf0 = vg_B.frees;
	r = extract_symlink(&vg_rd, filename);
#if VG_XS_CASE == 0
	__CPROVER_assert(VG_XS_POST(r, filename, t, sl0, fo0, fc0, ref0, ar0, head0, ta0),
	                 "C10/C15: a dangerous link met in the archive is replaced by a placeholder and deferred (once, list stays sorted); every other link, and every re-presented deferred link, is created at once and nothing is deferred");
	if (vg_F.symlinks == sl0 && r != 0) { VG_CANARY("extract_symlink: deferred"); }
	if (vg_F.symlinks != sl0 && t == CURR_FILE_NORMAL) { VG_CANARY("extract_symlink: safe link created at once"); }
	if (vg_F.symlinks != sl0 && t == CURR_FILE_DEFERRED_SYMLINK) { VG_CANARY("extract_symlink: deferred link created when re-presented"); }
#elif VG_XS_CASE == 2
	/* frame = the assigns clause of the @fn contract (dispatcher groups replace the call by that contract; the contract
	   instrumentation cannot enforce a function that still contains loops, so the frame is checked here): besides the
	   recorders vg_F / vg_M, vg_ref[0] and the _next links, nothing changes */
	__CPROVER_assert(vg_rd.curr_file_type == t && vg_rd.curr_file == &vg_h[0] && vg_rd.reader == snap.reader && vg_rd.decoder == snap.decoder &&
	                 vg_rd.inner_decoder == snap.inner_decoder && vg_rd.dir_policy == snap.dir_policy && vg_rd.dir_stack == snap.dir_stack,
	                 "frame: reader fields other than the deferred list head are unchanged");
	hs._next = vg_h[y]._next;
	__CPROVER_assert(VG_HDR_EQ(hs, vg_h[y]), "frame: no header field other than _next changes (arbitrary pool header)");
	__CPROVER_assert((y != 0 ==> vg_ref[y] == refy) && vg_tgt[vg_X] == tx && vg_hfree_calls == hf0 && vg_F.mkdirs == mk0 &&
	                 vg_F.utimes == ut0 && vg_F.chowns == co0 && vg_F.chmods == cm0,
	                 "frame: no other reference, no target byte changes; no directory is made, no metadata applied");
	__CPROVER_assert(vg_D.opens == dopens && vg_D.frees0 == df0 && vg_D.frees1 == df1 && vg_D.mon_calls == dm0 && vg_D.pass_calls == dp0 &&
	                 vg_B.next_calls == bn0 && vg_B.frees == bf0, "frame: no decoder or basic-reader call is made");
#else
	__CPROVER_assert(!vg_M.tmp_live, "C20: the temporary path string is released on every way out of extract_symlink");
#endif
	VG_CANARY("extract_symlink");
}

/* ------------------------------------------------------------------ dispatch (dfcc) ----------- */
static void vg_extract_state(void)
{
	vg_pick_strings();
	vg_target_string();
	vg_rd.curr_file = &vg_h[0];
	vg_h[0].symlink_target = nondet_bool() ? NULL : vg_tgt;
	vg_rd.deferred_symlinks = (vg_n == 0) ? NULL : &vg_h[vg_pick_index()];
	vg_rd.dir_stack = nondet_bool() ? NULL : &vg_h[vg_pick_index()];
	vg_pick_decoder_config(0);
	__CPROVER_assume(VG_TYPE_OK && VG_POLICY_OK);
	__CPROVER_assume(vg_ref[0] >= 0 && vg_ref[0] < 1000);
	__CPROVER_assume(VG_X_PRE);
	if (vg_rd.curr_file_type == CURR_FILE_NORMAL) {
		vg_B.cur = &vg_h[0];
	}
}
void h_extract_normal(void)
{
	LHAReader *reader; char *filename; LHADecoderProgressCallback callback; void *callback_data; int r;
	vg_havoc();
	vg_extract_state();
	filename = nondet_bool() ? NULL : vg_userfn;
	__CPROVER_assume(vg_rd.curr_file_type == CURR_FILE_NORMAL);
	r = extract_normal(reader, filename, callback, callback_data);
	if (!VG_IS_DIR(vg_h[0]) && r != 0) { VG_CANARY("extract_normal: file extracted"); }
	if (VG_IS_LINK0 && r != 0) { VG_CANARY("extract_normal: link"); }
	if (VG_IS_DIRECTORY0 && r != 0) { VG_CANARY("extract_normal: directory"); }
	VG_CANARY("extract_normal");
}
void h_extract(void)
{
	LHAReader *reader; char *filename; LHADecoderProgressCallback callback; void *callback_data; int r;
	vg_havoc();
	vg_extract_state();
	filename = nondet_bool() ? NULL : vg_userfn;
	__CPROVER_assume(vg_rd.curr_file_type == CURR_FILE_FAKE_DIR ==> (filename != NULL || vg_h[0].path != NULL));
	__CPROVER_assume(vg_rd.curr_file_type == CURR_FILE_DEFERRED_SYMLINK ==> vg_h[0].symlink_target != NULL);
	r = lha_reader_extract(reader, filename, callback, callback_data);
	if (vg_rd.curr_file_type == CURR_FILE_FAKE_DIR) { VG_CANARY("lha_reader_extract: re-presented directory"); }
	if (vg_rd.curr_file_type == CURR_FILE_DEFERRED_SYMLINK && r != 0) { VG_CANARY("lha_reader_extract: deferred symlink created"); }
	if (vg_rd.curr_file_type == CURR_FILE_NORMAL && r != 0) { VG_CANARY("lha_reader_extract: member"); }
	if (vg_rd.curr_file_type == CURR_FILE_EOF) { VG_CANARY("lha_reader_extract: no entry"); }
	VG_CANARY("lha_reader_extract");
}

/* ------------------------------------------------------------------ lha_reader_new (plain, real allocator) ---- */
#ifdef VG_REAL_ALLOC
/* ASSUME: lha_basic_reader_new returns NULL (allocation failure) or a basic reader handle. */
LHABasicReader *lha_basic_reader_new(LHAInputStream *stream)
{
	return nondet_bool() ? NULL : VG_BR;
}
void h_new(void)
{
	LHAReader *r; LHAInputStream *stream;
	r = lha_reader_new(stream);
	if (r != NULL) {
		__CPROVER_assert(r->reader == VG_BR && r->curr_file == NULL && r->curr_file_type == CURR_FILE_START && r->decoder == NULL &&
		                 r->inner_decoder == NULL && r->dir_stack == NULL && r->deferred_symlinks == NULL &&
		                 r->dir_policy == LHA_READER_DIR_END_OF_DIR,
		                 "C15: a new reader starts before the first entry, with no decoder, empty lists and the documented default policy");
		VG_CANARY("lha_reader_new: success");
		free(r);
	}
	VG_CANARY("lha_reader_new");
}
#endif

/* ------------------------------------------------------------------ bounded history (cross-check of the contracts) ---- */
/* Real lha_reader_next_file / lha_reader_extract / lha_reader_current_is_fake, no loop contracts, from the state
   lha_reader_new leaves, over an archive of at most VG_HMEM (= 1) members that are directories or symlinks (so no decoder
   is involved), any directory policy, any choice of extract / skip per entry.  Checks the trace-level reading of
   C15 / C10 that the per-function contracts are meant to add up to: every deferred symlink and every pushed
   directory is re-presented exactly once, where documented; after the end every request reports end. */
#ifdef VG_HISTORY
#ifndef VG_HMEM
#define VG_HMEM 1      /* 2 members: SAT back end runs out of memory (11 GB) during propositional reduction */
#endif
#define VG_HCALLS (2 * VG_HMEM + 2)
static char vg_tgts[VG_NH][4];
void h_history(void)
{
	unsigned step, shown_fake[VG_NH], shown_def[VG_NH], pushed[VG_NH], deferred[VG_NH], members = 0;
	size_t i, last_def_len = 0; _Bool any_def = 0, ended = 0;
	LHAReaderDirPolicy pol;
	LHAFileHeader *h;
	vg_havoc();
	vg_pick_strings();
	__CPROVER_havoc_object(vg_tgts);
	for (i = 0; i < VG_NH; ++i) {
		shown_fake[i] = 0; shown_def[i] = 0; pushed[i] = 0; deferred[i] = 0;
		vg_ref[i] = 0;
		/* ASSUME: what lha_file_header_read guarantees for "-lhd-" headers: directories carry a path, symlink targets are strings */
		vg_h[i].compress_method[0] = '-'; vg_h[i].compress_method[1] = 'l'; vg_h[i].compress_method[2] = 'h';
		vg_h[i].compress_method[3] = 'd'; vg_h[i].compress_method[4] = '-'; vg_h[i].compress_method[5] = 0;
		vg_tgts[i][3] = 0;
		vg_h[i].symlink_target = nondet_bool() ? NULL : vg_tgts[i];
		vg_h[i].path = vg_pathbuf[i];
		vg_h[i]._next = NULL;
		__CPROVER_assume(vg_plen[i] < 100 && vg_flen[i] < 100);
	}
	/* the state lha_reader_new establishes (group reader.lha_reader_new) */
	vg_rd.reader = VG_BR; vg_rd.curr_file = NULL; vg_rd.curr_file_type = CURR_FILE_START; vg_rd.decoder = NULL; vg_rd.inner_decoder = NULL;
	vg_rd.dir_stack = NULL; vg_rd.deferred_symlinks = NULL; vg_rd.dir_policy = LHA_READER_DIR_END_OF_DIR;
	vg_pick_decoder_config(0);
	vg_B.cur = NULL; vg_B.eof = 0; vg_B.next_calls = 0;
	vg_F.file_open = 0; vg_M.tmp_live = 0;
	__CPROVER_assume(pol == LHA_READER_DIR_PLAIN || pol == LHA_READER_DIR_END_OF_DIR || pol == LHA_READER_DIR_END_OF_FILE);
	lha_reader_set_dir_policy(&vg_rd, pol);

	for (step = 0; step < VG_HCALLS; ++step) {
		if (vg_B.next_calls >= VG_HMEM) {
			vg_B.eof = 1;                 /* the archive has at most VG_HMEM members */
		}
		h = lha_reader_next_file(&vg_rd);
		if (h == NULL) {
			if (ended) { VG_CANARY("history: request after the end"); }
			ended = 1;
			continue;
		}
		__CPROVER_assert(!ended, "C15: after the end is reached every further request reports end");
		i = VG_IDX(h);
		if (vg_rd.curr_file_type == CURR_FILE_FAKE_DIR) {
			__CPROVER_assert(lha_reader_current_is_fake(&vg_rd), "C15: re-presented directory is reported as fake");
			__CPROVER_assert(pushed[i] == 1 && shown_fake[i] == 0, "C15: only a directory this reader created is re-presented, and only once");
			__CPROVER_assert(pol != LHA_READER_DIR_PLAIN, "C15: never under the plain policy");
			__CPROVER_assert(pol == LHA_READER_DIR_END_OF_FILE ==> vg_B.cur == NULL, "C15: END_OF_FILE: only at the end of the archive");
			__CPROVER_assert(!any_def, "C10: directories are finished before any deferred symlink is created");
			shown_fake[i]++;
		} else if (vg_rd.curr_file_type == CURR_FILE_DEFERRED_SYMLINK) {
			__CPROVER_assert(lha_reader_current_is_fake(&vg_rd), "C15: re-presented symlink is reported as fake");
			__CPROVER_assert(deferred[i] == 1 && shown_def[i] == 0, "C15: only a deferred symlink is re-presented, and only once");
			__CPROVER_assert(vg_B.cur == NULL && vg_rd.dir_stack == NULL, "C10: deferred symlinks come after every member and every pending directory");
			__CPROVER_assert(!any_def || VG_PLEN(i) <= last_def_len, "C10: longest path first");
			any_def = 1; last_def_len = VG_PLEN(i);
			shown_def[i]++;
		} else {
			__CPROVER_assert(vg_rd.curr_file_type == CURR_FILE_NORMAL && h == vg_B.cur && !lha_reader_current_is_fake(&vg_rd), "C15: otherwise the archive's next member");
			members++;
		}
		if (nondet_bool()) {
			unsigned sl0 = vg_F.symlinks, mk0 = vg_F.mkdirs;
			LHAFileHeader *stk0 = vg_rd.dir_stack; int ref0 = vg_ref[i];
			int r = lha_reader_extract(&vg_rd, vg_userfn, NULL, NULL);
			if (vg_rd.curr_file_type == CURR_FILE_NORMAL) {
				if (vg_rd.dir_stack != stk0) { pushed[i]++; }
				else if (vg_ref[i] != ref0) { deferred[i]++; __CPROVER_assert(vg_F.symlinks == sl0, "C10: a deferred link is not created now"); }
			}
			if (vg_rd.curr_file_type == CURR_FILE_DEFERRED_SYMLINK) {
				__CPROVER_assert(vg_F.symlinks == sl0 + 1 && vg_F.mkdirs == mk0, "C10: the deferred link is created when it is re-presented");
			}
			(void) r;
		}
	}
	/* the walk is long enough to reach the end: members + as many re-presented entries + end + one more request */
	__CPROVER_assert(ended, "C13/C15: the end is reached");
	__CPROVER_assert(vg_X < VG_NH ==> (shown_fake[vg_X] == pushed[vg_X] && shown_def[vg_X] == deferred[vg_X] && pushed[vg_X] + deferred[vg_X] <= 1),
	                 "C15: by the end of the archive every pushed directory and every deferred symlink has been re-presented exactly once");
	if (any_def) { VG_CANARY("history: a deferred symlink was re-presented"); }
	if (vg_X < VG_NH && shown_fake[vg_X] == 1) { VG_CANARY("history: a directory was re-presented"); }
	VG_CANARY("history");
}
#endif

/* Unit print, part 2: src/list.c (lha l / lv / v / vv output) -- C18, memory safety of the same code C08.
   Every printing function is run, unmodified, on an arbitrary decoded header (vg_any_header: strings of at
   most VG_S bytes with every byte value, 5 arbitrary method bytes, all numeric fields arbitrary); the
   obligation sits in the sinks of vg_print.h. */
#define VG_WITH_HEADER 1
#include <errno.h>
#include "vg_print.h"

/* ASSUME: localtime(t) for *t in 0..2^32-1 (the tool only passes 32-bit Unix times) returns a non-NULL
   struct tm whose fields are in their documented ranges: tm_mon 0..11, tm_mday 1..31, tm_hour 0..23,
   tm_min 0..59, tm_sec 0..60, tm_year 69..206.  (The tool does not test for NULL.) */
struct tm vg_tm;
struct tm *localtime(const time_t *t)
{
	__CPROVER_assert(__CPROVER_r_ok(t, sizeof(time_t)), "C08 localtime argument readable");
	__CPROVER_havoc_object(&vg_tm);
	__CPROVER_assume(vg_tm.tm_mon >= 0 && vg_tm.tm_mon <= 11 && vg_tm.tm_mday >= 1 && vg_tm.tm_mday <= 31);
	__CPROVER_assume(vg_tm.tm_hour >= 0 && vg_tm.tm_hour <= 23 && vg_tm.tm_min >= 0 && vg_tm.tm_min <= 59);
	__CPROVER_assume(vg_tm.tm_sec >= 0 && vg_tm.tm_sec <= 60 && vg_tm.tm_year >= 69 && vg_tm.tm_year <= 206);
	return &vg_tm;
}
/* ASSUME: time(NULL) returns the current time, a value between 2001 and 2262 (so "now - 6 months" cannot overflow). */
time_t time(time_t *t)
{
	time_t now;
	__CPROVER_assert(t == NULL, "time(NULL)");
	__CPROVER_assume(now >= 1000000000L && now <= 9223372036L);
	return now;
}
/* ASSUME: fileno / fstat do not print; fstat fills the buffer arbitrarily or fails. */
int fileno(FILE *stream) { (void) stream; return nondet_int(); }
int fstat(int fd, struct stat *buf)
{
	(void) fd;
	if (nondet_bool()) return -1;
	__CPROVER_havoc_object(buf);
	return 0;
}

#define VG_IS_HANDLER(h) __CPROVER_assert( \
	(h) == permission_column_print || (h) == unix_uid_gid_column_print || (h) == packed_column_print || \
	(h) == size_column_print || (h) == ratio_column_print || (h) == method_crc_column_print || \
	(h) == timestamp_column_print || (h) == full_timestamp_column_print || (h) == name_column_print || \
	(h) == whole_line_name_column_print || (h) == header_level_column_print, \
	"C18 print_columns: the handler called is one of the column handlers that have their own group")
#define VG_IS_FOOTER(f) __CPROVER_assert( \
	(f) == permission_column_footer || (f) == unix_uid_gid_column_footer || (f) == packed_column_footer || \
	(f) == size_column_footer || (f) == ratio_column_footer || (f) == timestamp_column_footer || \
	(f) == full_timestamp_column_footer, \
	"C18 print_footers: the footer called is one of the column footers that have their own group")
#include "src/list.c"

static void vg_begin(void) { vg_quiet = 0; vg_sunk = 0; vg_raw_sunk = 0; vg_safe_sunk = 0; vg_members = 0; }
#define VG_END(name) do { __CPROVER_assert(vg_raw_sunk == 0 && vg_quiet == 0, "C18 " name ": the raw (file data) sink is not used"); VG_CANARY(name); } while (0)

FileStatistics vg_stats;
static FileStatistics *vg_any_stats(void) { __CPROVER_havoc_object(&vg_stats); return &vg_stats; }

/* one of the four column layouts of the tool: l, lv, v, vv */
static ListColumn **vg_any_columns(void)
{
#ifdef VG_LAYOUT
	unsigned k = VG_LAYOUT;      /* per-layout groups: the tables are constants, this keeps the pointer calls concrete */
#else
	unsigned k = nondet_uint();
#endif
	if (k == 0) return normal_column_headers;
	if (k == 1) return normal_column_headers_verbose;
	if (k == 2) return verbose_column_headers;
	return verbose_column_headers_verbose;
}

/* ---- leaf: os type names are program literals, printable, and fit the 10-column field */
void h_os_type_to_string(void)
{
	uint8_t t = nondet_uchar(); char *r;
	vg_begin();
	r = os_type_to_string(t);
	__CPROVER_assert(vg_check_printable(r) <= 10, "C18 os_type_to_string: a printable literal of at most 10 characters for every os_type");
	VG_END("os_type_to_string");
}

/* ---- column handlers (per-member cells) */
#define VG_HANDLER_ENTRY(fn) void h_##fn(void) { LHAFileHeader *h; vg_begin(); h = vg_any_header(); fn(h); \
	VG_END(#fn); }
VG_HANDLER_ENTRY(unix_permissions_print)
VG_HANDLER_ENTRY(os9_permissions_print)
VG_HANDLER_ENTRY(permission_column_print)
VG_HANDLER_ENTRY(unix_uid_gid_column_print)
VG_HANDLER_ENTRY(packed_column_print)
VG_HANDLER_ENTRY(size_column_print)
VG_HANDLER_ENTRY(ratio_column_print)
VG_HANDLER_ENTRY(method_crc_column_print)
VG_HANDLER_ENTRY(timestamp_column_print)
VG_HANDLER_ENTRY(full_timestamp_column_print)
VG_HANDLER_ENTRY(name_column_print)
VG_HANDLER_ENTRY(whole_line_name_column_print)
VG_HANDLER_ENTRY(header_level_column_print)

/* ---- column footers (totals line) */
#define VG_FOOTER_ENTRY(fn) void h_##fn(void) { FileStatistics *s; vg_begin(); s = vg_any_stats(); fn(s); \
	__CPROVER_assert(vg_sunk > 0, "C18 " #fn ": output goes through the checked sinks"); VG_END(#fn); }
VG_FOOTER_ENTRY(permission_column_footer)
VG_FOOTER_ENTRY(unix_uid_gid_column_footer)
VG_FOOTER_ENTRY(packed_column_footer)
VG_FOOTER_ENTRY(size_column_footer)
VG_FOOTER_ENTRY(ratio_column_footer)
VG_FOOTER_ENTRY(timestamp_column_footer)
VG_FOOTER_ENTRY(full_timestamp_column_footer)

/* ---- timestamp formatting, for every 32-bit time */
void h_output_timestamp(void) { unsigned int t = nondet_uint(); vg_begin(); output_timestamp(t); VG_END("output_timestamp"); }
void h_output_full_timestamp(void) { unsigned int t = nondet_uint(); vg_begin(); output_full_timestamp(t); VG_END("output_full_timestamp"); }

/* ---- the column tables are program constants: NULL-terminated, printable names, widths as the loops assume */
static void vg_check_table(ListColumn **cols)
{
	unsigned i;
	for (i = 0; cols[i] != NULL; i++) {
		__CPROVER_assert(vg_check_printable(cols[i]->name) <= 11 && cols[i]->width <= 20, "C18 column table: printable heading, width at most 20");
		VG_IS_HANDLER(cols[i]->handler);
		if (cols[i]->footer != NULL) VG_IS_FOOTER(cols[i]->footer);
	}
	__CPROVER_assert(i <= 9, "column table has at most 9 columns");
}
void h_column_tables(void)
{
	vg_begin();
	vg_check_table(normal_column_headers); vg_check_table(normal_column_headers_verbose);
	vg_check_table(verbose_column_headers); vg_check_table(verbose_column_headers_verbose);
	VG_END("column_tables");
}

/* ---- line printers, each for all four layouts */
void h_last_column(void)
{
	ListColumn **c, *l; vg_begin(); c = vg_any_columns(); l = last_column(c);
	__CPROVER_assert(l != NULL && l->width != 0, "last_column: every layout has a last real column");
	VG_END("last_column");
}
void h_print_list_headings(void) { ListColumn **c; vg_begin(); c = vg_any_columns(); print_list_headings(c); VG_END("print_list_headings"); }
void h_print_list_separators(void) { ListColumn **c; vg_begin(); c = vg_any_columns(); print_list_separators(c); VG_END("print_list_separators"); }
void h_print_columns(void)
{
	ListColumn **c; LHAFileHeader *h;
	vg_begin(); c = vg_any_columns(); h = vg_any_header();
	print_columns(c, h);
	VG_END("print_columns");
}
void h_print_footers(void)
{
	ListColumn **c; FileStatistics *s;
	vg_begin(); c = vg_any_columns(); s = vg_any_stats();
	print_footers(c, s);
	VG_END("print_footers");
}
void h_read_file_timestamp(void) { FILE *f; vg_begin(); (void) read_file_timestamp(f); VG_END("read_file_timestamp"); }

/* ---- whole listing: at most VG_MEMBERS members (loop unwound), any layout, any options */
void h_list_file_contents(void)
{
	ListColumn **c; FILE *f;
	vg_begin(); vg_any_options(); c = vg_any_columns();
	list_file_contents(&vg_filter, f, &vg_options, c);
	VG_END("list_file_contents");
}
/* the two entry points of the module; VG_VERBOSE splits on options->verbose so that the layout table, and
   with it every pointer call, is a constant in each group.  options->verbose is 0 or 1: the only caller,
   main.c (parse_options), initialises it to 0 and sets it to 1 for the 'v' option letter. */
#ifdef VG_VERBOSE
#define VG_SPLIT_VERBOSE() (vg_options.verbose = VG_VERBOSE)
#else
#define VG_SPLIT_VERBOSE() ((void) 0)
#endif
void h_list_file_basic(void) { FILE *f; vg_begin(); vg_any_options(); VG_SPLIT_VERBOSE(); list_file_basic(&vg_filter, &vg_options, f); VG_END("list_file_basic"); }
void h_list_file_verbose(void) { FILE *f; vg_begin(); vg_any_options(); VG_SPLIT_VERBOSE(); list_file_verbose(&vg_filter, &vg_options, f); VG_END("list_file_verbose"); }

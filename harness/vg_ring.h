/* Shared vocabulary of the LArc-style ring decoders (lzs, lz5): closed-form LZ77 leaf semantics.
   Included after RING/OUTPUT sizes are known only through lazily expanded macros. */
#ifndef VG_RING_H
#define VG_RING_H
/* Skolem ghost indices: arbitrary, never assigned (stand for a universally quantified index);
   constrained in vg_havoc to the valid cells of their arrays. */
size_t vg_K;          /* index of one output byte of a copy block */
size_t vg_Y;          /* one ring cell */
size_t vg_E;          /* one earlier output byte */

/* iteration of the current block that writes ring cell c (taken mod S) when the write position starts
   at p0: the unique j in [0,S) with (p0 + j) % S == c % S */
#define VG_WRITER(c, p0) ((((size_t)(c)) % RING_BUFFER_SIZE + RING_BUFFER_SIZE - ((size_t)(p0))) % RING_BUFFER_SIZE)

/* ghost command log */
#define VG_LIT 1
#define VG_COPY 2
/* one entry per TOP-LEVEL command: kind, operands (literal: a = byte, b = 1; copy: a = position, b = length) and the
   output offset at which the command's bytes start.  vg_depth != 0 while a copy block is emitting its bytes through
   output_byte, so that those nested calls are not logged as literals. */
struct vg_cmd { int kind; unsigned a, b; size_t off; };
#define VG_LOG_MAX 16
struct vg_cmd vg_log[VG_LOG_MAX];
unsigned vg_n;
unsigned vg_depth;
size_t vg_C;          /* Skolem index of one logged command */
#define VG_LOG_APPEND(k, x, y, o) (vg_log[vg_n].kind = (k), vg_log[vg_n].a = (x), vg_log[vg_n].b = (y), vg_log[vg_n].off = (o), vg_n = vg_n + 1)
#define VG_LOG_IS(i, k, x, y, o) (vg_log[i].kind == (k) && vg_log[i].a == (x) && vg_log[i].b == (y) && vg_log[i].off == (o))

/* old-value accessors: contract mode (DFCC history variables) or harness mode (explicit snapshot) */
#ifdef VG_HARNESS_MODE
#define VG_P0     vg_p0
#define VG_L0     vg_l0
#define VG_N0     vg_n0
#define VG_D0     vg_d0
#define VG_R0(i)  (vg_dec0.ringbuf[i])
#define VG_O0(i)  (vg_out0.b[i])
#else
#define VG_P0     __CPROVER_old(vg_dec.ringbuf_pos)
#define VG_L0     __CPROVER_old(*buf_len)
#define VG_N0     __CPROVER_old(vg_n)
#define VG_D0     __CPROVER_old(vg_depth)
#define VG_R0(i)  __CPROVER_old(vg_dec.ringbuf[i])
#define VG_O0(i)  __CPROVER_old(vg_out[i])
#endif

/* output_byte(decoder, buf, buf_len, b) */
#define LZS_OB_PRE          (vg_dec.ringbuf_pos < RING_BUFFER_SIZE && *buf_len < OUTPUT_BUFFER_SIZE)
#define LZS_OB_POST_LEN     (*buf_len == VG_L0 + 1)
#define LZS_OB_POST_BYTE    (vg_out[VG_L0] == b)
#define LZS_OB_POST_POS     (vg_dec.ringbuf_pos == (VG_P0 + 1) % RING_BUFFER_SIZE)
#define LZS_OB_POST_RING    (vg_dec.ringbuf[vg_Y] == (vg_Y == VG_P0 ? b : VG_R0(vg_Y)))
#define LZS_OB_POST_EARLIER (vg_E < VG_L0 ==> vg_out[vg_E] == VG_O0(vg_E))
#define LZS_OB_POST_LOG     (vg_depth == VG_D0 && (VG_D0 == 0 ? (vg_n == VG_N0 + 1 && VG_LOG_IS(VG_N0, VG_LIT, b, 1, VG_L0)) : vg_n == VG_N0))

/* output_block(decoder, buf, buf_len, start, len): LZ77 copy from ABSOLUTE ring position start.
   The *_ forms take the operands explicitly so that dispatchers can state the effect of the command
   that the FORMAT assigns to the consumed bits; the parameterless forms are the leaf's own contract. */
#define LZS_BLK_PRE          (vg_dec.ringbuf_pos < RING_BUFFER_SIZE && *buf_len <= OUTPUT_BUFFER_SIZE && len <= OUTPUT_BUFFER_SIZE - *buf_len)
#define LZS_BLK_POST_LEN     (*buf_len == VG_L0 + len)
#define LZS_BLK_POST_POS     (vg_dec.ringbuf_pos == (VG_P0 + len) % RING_BUFFER_SIZE)
/* byte K of the block comes from ring position START+K, which holds an earlier byte of this same block iff
   the write position reached that cell first (self-overlap), else the ring content from before the call */
#define LZS_BLK_POST_BYTE_(START, LEN, L0, P0)  (vg_K < (LEN) ==> vg_out[(L0) + vg_K] == \
    (VG_WRITER((START) + vg_K, P0) < vg_K ? vg_out[(L0) + VG_WRITER((START) + vg_K, P0)] \
                                          : VG_R0(((START) + vg_K) % RING_BUFFER_SIZE)))
/* ring afterwards: the old ring overwritten by the output at the old write position */
#define LZS_BLK_POST_RING_(LEN, L0, P0)  (vg_dec.ringbuf[vg_Y] == \
    (VG_WRITER(vg_Y, P0) < (LEN) ? vg_out[(L0) + VG_WRITER(vg_Y, P0)] : VG_R0(vg_Y)))
#define LZS_BLK_POST_BYTE    LZS_BLK_POST_BYTE_(start, len, VG_L0, VG_P0)
#define LZS_BLK_POST_RING    LZS_BLK_POST_RING_(len, VG_L0, VG_P0)
#define LZS_BLK_POST_EARLIER (vg_E < VG_L0 ==> vg_out[vg_E] == VG_O0(vg_E))
#define LZS_BLK_POST_LOG     (vg_depth == 0 && vg_n == VG_N0 + 1 && VG_LOG_IS(VG_N0, VG_COPY, start, len, VG_L0))
#endif

/* Unit: lib/bit_stream_reader.c, FUNCTIONAL contract: read_bits(n) returns exactly the next n stream bits
   MSB-first and advances the cursor by n; peek_bits leaves it; failure only at end of input (n <= 25).
   Complete case split over the 33 possible values of reader->bits (a constant of the 32-bit buffer) and
   entry byte positions VG_POS_MIN..VG_POS_MAX of the 48-byte ghost window:
   group K fixes bits == K, everything else (n, buffer contents, stream, every short-read behaviour of the
   callback) is symbolic; the two width-bounded loops are unwound (4 x 4) with unwinding assertions. */
#include "vg_common.h"
#include "lib/lha_decoder.h"
#include "vg_bits.h"
#define VG_CB vg_cbf
#define BSR_OK(r) ((r)->bits <= 32 && (r)->callback == VG_CB)
#include "lib/bit_stream_reader.c"

#ifndef VG_BITS_CASE
#define VG_BITS_CASE 0
#endif

static BitStreamReader vg_r;

void h_bits_case(void)
{
	unsigned n = nondet_uint();
	size_t cur0, pos0;
	int ret;
	_Bool do_read = nondet_bool(), eof0;
	__CPROVER_havoc_object(&vg_r);
	__CPROVER_havoc_object(vg_in);
	vg_in_pos = nondet_size_t();
	vg_eof = nondet_bool();
	eof0 = vg_eof;
	__CPROVER_assume(n <= 31);
	__CPROVER_assume(vg_in_pos <= VG_POS_MAX);
	__CPROVER_assume(vg_r.bits == VG_BITS_CASE);
	__CPROVER_assume(BITS_PRE(&vg_r, n));
	cur0 = VG_CUR(&vg_r); pos0 = vg_in_pos;
	if (do_read) {
		ret = read_bits(&vg_r, n);
		__CPROVER_assert(BITS_READ_POST(ret, &vg_r, n, cur0),
		                 "read_bits returns the next n stream bits MSB-first and advances the cursor by n");
	} else {
		ret = peek_bits(&vg_r, n);
		__CPROVER_assert(BITS_PEEK_POST(ret, &vg_r, n, cur0),
		                 "peek_bits returns the next n stream bits MSB-first and leaves the cursor");
	}
	__CPROVER_assert(BITS_INV_POST(&vg_r), "bit buffer invariant preserved (also on failure)");
	__CPROVER_assert(eof0 || BITS_EOF_POST(ret, n), "failure only when the input is exhausted (requests up to 25 bits)");
	__CPROVER_assert(BITS_ADV_POST(pos0), "at most 4 bytes are fetched per call");
	__CPROVER_assert(BITS_EOF_MONO(eof0), "end-of-input flag is sticky");
	__CPROVER_assert(ret >= -1, "result is -1 or a value");
	VG_CANARY("bits_case success+failure paths reachable");
}

/* both outcomes must be reachable in every case that can have them */
void h_bits_reach(void)
{
	unsigned n = nondet_uint();
	int ret;
	__CPROVER_havoc_object(&vg_r);
	__CPROVER_havoc_object(vg_in);
	vg_in_pos = nondet_size_t();
	vg_eof = 0;
	__CPROVER_assume(n >= 1 && n <= 24);
	__CPROVER_assume(vg_in_pos <= VG_POS_MAX);
	__CPROVER_assume(BSR_FUNC(&vg_r));
	ret = read_bits(&vg_r, n);
	if (ret == -1) { VG_CANARY("failure path reachable"); }
	else { VG_CANARY("success path reachable"); }
}

/* bit_stream_reader_init establishes the invariant at the start of a stream */
void h_bits_init(void)
{
	void *cbd;
	__CPROVER_havoc_object(&vg_r);
	vg_in_pos = 4;
	bit_stream_reader_init(&vg_r, vg_cbf, cbd);
	__CPROVER_assert(BSR_FUNC(&vg_r) && VG_CUR(&vg_r) == 32, "init: empty buffer, cursor at the first stream bit (window offset 4 bytes)");
	VG_CANARY("bits_init");
}

/* read_bit is read_bits(reader, 1): its functional contract follows from read_bits' (replaced by contract) */
void h_read_bit_func(void)
{
	BitStreamReader *r;
	__CPROVER_havoc_object(vg_in);
	vg_in_pos = nondet_size_t();
	vg_eof = 0;
	read_bit(r);
	VG_CANARY("read_bit functional");
}

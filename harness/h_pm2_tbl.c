/* C04, pm2 code-table header (functional, real bit reader): the real read_code_tree / read_offset_tree (lib/pm2_decoder.c,
   unwoven) on the 48-byte ghost stream window.  From the format: a code table starts with a 5-bit code count and a 3-bit
   minimum length.  Minimum length 0 is the single-symbol form: nothing else follows (8 bits consumed) and every code
   decodes to symbol count-1.  Otherwise a 3-bit field width w follows and then `count` fields of w bits each
   (11 + count*w bits consumed); a field value v > 0 means length min+v-1, 0 means unused.
   The offset table: `n` 3-bit lengths (3*n bits); if exactly one is non-zero -- no, that is build_tree's business: only the
   bit consumption is stated here.  BOUNDED in the table form: count <= VG_PT_N entries (the loop is unwound). */
#define VG_CB_MAX 4
#define VG_CB vg_cbf
#include "vg_decoder.h"
#include "lib/lha_decoder.h"
#include "vg_bits.h"
#ifndef VG_PT_N
#define VG_PT_N 3
#endif
#include "lib/pm2_decoder.c"

static LHAPM2Decoder vg_d;

void h_pm2_code_table_func(void)
{
	size_t cur0;
	unsigned nc, ml, w;
	int ret;
	__CPROVER_havoc_object(&vg_d);
	__CPROVER_havoc_object(vg_in);
	vg_in_pos = nondet_size_t(); vg_eof = 0;
	__CPROVER_assume(BITS_PRE(&vg_d.bit_stream_reader, 0u) && vg_in_pos <= VG_POS_MIN + 4);
	cur0 = VG_CUR(&vg_d.bit_stream_reader);
	nc = VG_SB(cur0, 5u); ml = VG_SB(cur0 + 5, 3u); w = VG_SB(cur0 + 8, 3u);
#ifdef VG_PT_SINGLE
	__CPROVER_assume(ml == 0);                                       /* single-symbol form: complete */
#else
	__CPROVER_assume(ml != 0 && nc <= VG_PT_N);                      /* table form, bounded */
#endif
	ret = read_code_tree(&vg_d);
	if (ret) {
		if (ml == 0) {
			__CPROVER_assert(VG_CUR(&vg_d.bit_stream_reader) == cur0 + 8, "C04 pm2 code table, single-symbol form: exactly the 5-bit count and the 3-bit minimum length are consumed");
			__CPROVER_assert(VG_LEAF(vg_d.code_tree[0]) && VG_VAL(vg_d.code_tree[0]) == ((nc - 1u) & 0x7fu), "C04 pm2 code table, single-symbol form: every code decodes to symbol count-1");
		} else {
			__CPROVER_assert(VG_CUR(&vg_d.bit_stream_reader) == cur0 + 11 + (size_t) nc * w, "C04 pm2 code table: 5-bit count, 3-bit minimum length, 3-bit field width, then count fields of that width");
		}
		__CPROVER_assert((vg_d.need_offset_tree != 0) == (nc >= 10 && !(nc == 29 && ml == 0)), "C04 pm2: an offset table follows exactly when the code table has >= 10 entries and is not the 29/0 form");
	} else {
		__CPROVER_assert(vg_eof, "C04 pm2 code table: failure only at end of input");
	}
	VG_CANARY("pm2_code_table_func");
}

/* C14/C07/C09, bounded and anchor-independent: the real decoder shell (lib/lha_decoder.c, unwoven) from lha_decoder_new
   through a short history of lha_decoder_read calls, against an inner decoder that reveals a fixed produced stream in
   arbitrary runs of at most VG_DP_MR bytes.  Checked directly from the property: each call returns at most the bytes
   asked for; the bytes returned are the next bytes of the produced stream, in order; the total never exceeds the declared
   length and is the same stream prefix however the reads are split; the reported length equals the bytes returned; a
   call returns less than min(asked, remaining) only when the inner decoder has ended; the inner decoder writes only
   into the shell's own buffer or into the caller's buffer range it was lent.  Plain route: a restructured read loop
   (fast paths, different bookkeeping) is still decided. */
#include "vg_common.h"
#include <string.h>
#include <limits.h>
#ifndef VG_DP_MR
#define VG_DP_MR 2      /* max_read of the stub type */
#endif
#define VG_DP_P  6      /* produced stream: at most 6 bytes */
#define VG_DP_U  5      /* caller's buffers: at most 5 bytes per call */
#define VG_DP_K  2      /* calls */

#include "lib/lha_decoder.h"

uint8_t vg_in_prod[VG_DP_P];
size_t vg_in_plen_total;     /* how many bytes the inner decoder has before it ends */
size_t vg_in_slen;           /* declared stream length */
size_t vg_in_ask[VG_DP_K];
static size_t vg_plen;       /* revealed so far */
static int vg_ended;

/* ASSUME: LHADecoderType.read contract: returns n <= max_read, writes exactly buf[0..n) (the next n produced bytes);
   0 = end of stream, and then 0 for ever. */
static size_t vg_read(void *extra, uint8_t *buf)
{
	size_t n = nondet_size_t(), k;
	(void) extra;
	__CPROVER_assume(n <= VG_DP_MR && n <= vg_in_plen_total - vg_plen);
	if (vg_ended) n = 0;
	__CPROVER_assert(__CPROVER_w_ok(buf, VG_DP_MR), "READ_OK: the buffer handed to the inner decoder has room for max_read bytes");
	for (k = 0; k < VG_DP_MR; k++) if (k < n) buf[k] = vg_in_prod[vg_plen + k];
	vg_plen += n;
	if (n == 0) vg_ended = 1;
	return n;
}
static LHADecoderType vg_dtype = { NULL, NULL, vg_read, 4, VG_DP_MR, 2 };
void lha_crc16_buf(uint16_t *crc, uint8_t *buf, size_t buf_len) { (void) buf; (void) buf_len; *crc = nondet_ushort(); }

#include "lib/lha_decoder.c"

void h_decoder_history(void)
{
	LHADecoder *d;
	uint8_t ub[VG_DP_U + 1];
	size_t k, j, total = 0, r, want;
	for (k = 0; k < VG_DP_P; k++) vg_in_prod[k] = nondet_uchar();
	vg_in_plen_total = nondet_size_t(); vg_in_slen = nondet_size_t();
	__CPROVER_assume(vg_in_plen_total <= VG_DP_P && vg_in_slen <= VG_DP_P);
	vg_plen = 0; vg_ended = 0;
	d = lha_decoder_new(&vg_dtype, NULL, NULL, vg_in_slen);
	if (d == NULL) return;
	for (k = 0; k < VG_DP_K; k++) {
		vg_in_ask[k] = nondet_size_t();
		__CPROVER_assume(vg_in_ask[k] <= VG_DP_U);
		ub[VG_DP_U] = 0x5a;                                        /* sentinel behind the caller's buffer */
		r = lha_decoder_read(d, ub, vg_in_ask[k]);
		want = vg_in_ask[k] < vg_in_slen - total ? vg_in_ask[k] : vg_in_slen - total;
		__CPROVER_assert(r <= vg_in_ask[k], "C14 (bounded): never more bytes than asked for");
		__CPROVER_assert(r <= vg_in_slen - total, "C14 (bounded): never beyond the declared length");
		for (j = 0; j < VG_DP_U; j++) if (j < r) __CPROVER_assert(ub[j] == vg_in_prod[total + j], "C14 (bounded): the bytes returned are the next bytes of the produced stream, in order");
		__CPROVER_assert(ub[VG_DP_U] == 0x5a, "C09 (bounded): nothing is written behind the caller's buffer");
		__CPROVER_assert(r == want || vg_ended, "C14 (bounded): a short read happens only when the inner decoder has ended");
		total += r;
		__CPROVER_assert(lha_decoder_get_length(d) == total, "C14/C07 (bounded): the reported length is the number of bytes returned so far");
	}
	lha_decoder_free(d);
	VG_CANARY("decoder_history");
}

/* C03, bounded and anchor-independent: the real -lz5- decoder (lib/lz5_decoder.c, unwoven) from lha_lz5_init, fed
   at most VG_LR_N symbolic input bytes, one read (up to 8 commands, as many as the input holds), against a reference
   LZSS expansion written from the format: ring of 4096 bytes whose initial contents are 13 bytes of each value 0..255,
   then 0..255 ascending, 255..0 descending, 128 zeros, 110 spaces, 18 zeros; writing starts at 4096-18; flag bits LSB
   first, 1 = literal byte, 0 = copy(position = byte0 | (byte1 & 0xF0) << 4, length = (byte1 & 0x0F) + 3) reading
   ring[(position + k) mod 4096] while the output is written back into the ring.  Initial ring contents are concrete,
   so the init loops are evaluated by symbolic execution, not by the solver.  Covers what the leaf contracts do not:
   the first commands of a stream reaching into never-written cells through any organisation of the ring. */
#include "vg_common.h"
#include <string.h>
#include "lib/lha_decoder.h"
#ifndef VG_LR_N
#define VG_LR_N 5
#endif
uint8_t vg_in_b[VG_LR_N];
size_t vg_in_n;
static size_t vg_rpos;
static size_t vg_cbk(void *buf, size_t buf_len, void *user_data)
{
	size_t k; uint8_t *p = buf;
	(void) user_data;
	/* ASSUME: LHADecoderCallback as the decoder shell's reader implements it for whole-or-nothing small requests:
	   returns buf_len bytes or, at end of input, fewer (the decoder treats a short count as end of stream) */
	if (buf_len > vg_in_n - vg_rpos) { vg_rpos = vg_in_n; return 0; }
	for (k = 0; k < 2; k++) if (k < buf_len) p[k] = vg_in_b[vg_rpos + k];
	vg_rpos += buf_len;
	return buf_len;
}
#include "lib/lz5_decoder.c"

static uint8_t vg_ref[4096];
static uint8_t vg_exp[8 * 18];

void h_lz5_init_run(void)
{
	void *extra = malloc(lha_lz5_decoder.extra_size);
	uint8_t *out = malloc(lha_lz5_decoder.max_read);
	size_t k, r, n_exp = 0, ip, rp;
	unsigned i, j, bit;
	int stop = 0;
	__CPROVER_assume(extra != NULL && out != NULL);
	for (k = 0; k < VG_LR_N; k++) vg_in_b[k] = nondet_uchar();
	vg_in_n = nondet_size_t();
	__CPROVER_assume(vg_in_n <= VG_LR_N);
	vg_rpos = 0;
	/* reference ring, from the format */
	k = 0;
	for (i = 0; i < 256; i++) for (j = 0; j < 13; j++) vg_ref[k++] = (uint8_t) i;
	for (i = 0; i < 256; i++) vg_ref[k++] = (uint8_t) i;
	for (i = 0; i < 256; i++) vg_ref[k++] = (uint8_t) (255 - i);
	for (i = 0; i < 128; i++) vg_ref[k++] = 0;
	for (i = 0; i < 110; i++) vg_ref[k++] = ' ';
	for (i = 0; i < 18; i++) vg_ref[k++] = 0;
	rp = 4096 - 18;
	/* reference expansion of one flag byte's worth of commands, as far as the input reaches */
	ip = 0;
	if (vg_in_n >= 1) {
		uint8_t flags = vg_in_b[0];
		ip = 1;
		for (bit = 0; bit < 8; bit++) if (!stop) {
			if (flags & (1u << bit)) {
				if (ip + 1 > vg_in_n) { stop = 1; }
				else { uint8_t b = vg_in_b[ip]; ip += 1; vg_exp[n_exp++] = b; vg_ref[rp] = b; rp = (rp + 1) % 4096; }
			} else {
				if (ip + 2 > vg_in_n) { stop = 1; }
				else {
					unsigned pos = vg_in_b[ip] | ((unsigned) (vg_in_b[ip + 1] & 0xf0) << 4), len = (vg_in_b[ip + 1] & 0x0f) + 3u, q;
					ip += 2;
					for (q = 0; q < 18; q++) if (q < len) { uint8_t b = vg_ref[(pos + q) % 4096]; vg_exp[n_exp++] = b; vg_ref[rp] = b; rp = (rp + 1) % 4096; }
				}
			}
		}
	}
	if (lha_lz5_decoder.init(extra, vg_cbk, NULL)) {
		r = lha_lz5_decoder.read(extra, out);
		__CPROVER_assert(r == n_exp, "C03 (bounded, from init): the number of bytes produced is the total length of the commands the input holds");
		for (k = 0; k < 8 * 18; k++) if (k < r && k < n_exp) __CPROVER_assert(out[k] == vg_exp[k], "C03 (bounded, from init): output equals the LZSS expansion over the format's initial window");
	}
	VG_CANARY("lz5_init_run");
}

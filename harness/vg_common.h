/* Shared prelude for all harness translation units (compiled only by goto-cc with -DLHASA_VERIF). */
#ifndef VG_COMMON_H
#define VG_COMMON_H
#include <stddef.h>
#include <stdint.h>
#include <stdlib.h>
#include <string.h>

/* Vacuity guard: must come back FAILURE in every run (engine enforces it). */
#define VG_CANARY(name) __CPROVER_assert(0, "VG_CANARY " name)

unsigned char  nondet_uchar(void);
char           nondet_char(void);
unsigned short nondet_ushort(void);
unsigned int   nondet_uint(void);
int            nondet_int(void);
size_t         nondet_size_t(void);
_Bool          nondet_bool(void);

#define VG_OFF(p) ((size_t)__CPROVER_POINTER_OFFSET(p))
#endif

/* Unit maincli: propagation of member verdicts to the process exit status by the command-line tool (C07).

   The library half of C07 (do_decode / lha_reader_check / extract_file: "good verdict <=> decoded length and
   CRC-16 match the header") is under contract in the units reader / decoder / crc16.  This unit covers what
   src/extract.c and src/main.c do with those verdicts:

     member verdicts --(test_file_crc / extract_archive / print_archive)--> result flag
     result flag     --(do_command, main: return !do_command(...))------->  exit status

   Ways of compiling this file (plan/maincli.json, "defs"):

     VG_MC_L      woven src/extract.c alone, legacy route (--apply-loop-contracts): the member loops of
                  test_file_crc / extract_archive / print_archive are closed by the loop invariants of
                  contracts/src/extract.c.spec (blocks under #ifdef VG_MC_L) - ANY number of members; pre/post
                  are assumed / asserted around the real call here.  With VG_MC_PU in addition (group
                  maincli.prompt_user, dfcc route): prompt_user's contract, which maincli.extract_archive uses
                  in place of the call, is enforced.
     VG_MC_FULL   UNWOVEN src/extract.c + src/main.c, plain route: the real main(argc, argv) on a small symbolic
                  command line and an archive of at most VG_MEMBERS members (anchor-independent, bounded).
     VG_MC_MAIN   UNWOVEN src/main.c alone, plain route: test_file_crc / extract_archive / print_archive are
                  stand-ins returning an arbitrary value (their contract, proved under VG_MC_L, says 0 or 1).
                  With VG_MC_LM in addition: the WOVEN src/main.c, legacy route, option strings of any length.

   Ghost vocabulary (written by the stand-ins for the public library API only):
     vg_fail_seen   some selected member received a FAILING LIBRARY VERDICT (lha_reader_check or
                    lha_reader_extract returned 0) so far;
     vg_env_fail    some selected member failed for a reason of the ENVIRONMENT that the tool is specified to
                    report as a failure too: a parent directory could not be made (lha_arch_mkdir failed, the
                    parent path is a plain file, stat failed), or stdout took fewer bytes than 'lha p' wrote;
     vg_verdicts    number of library verdicts issued; vg_members: number of members delivered by the filter. */
#include "vg_common.h"
#include <stdio.h>
#include <ctype.h>
#include <errno.h>
#include "lib/lha_arch.h"
#include "lha_reader.h"
#include "filter.h"
#include "options.h"
#include "extract.h"
#include "list.h"
#include "safe.h"

#if !defined(VG_MC_L) && !defined(VG_MC_FULL) && !defined(VG_MC_MAIN)
#error "h_maincli.c: one of VG_MC_L, VG_MC_FULL, VG_MC_MAIN must be defined by the group"
#endif

int vg_fail_seen, vg_env_fail, vg_next_after_fail;
unsigned vg_verdicts, vg_members;
/* named by the print unit's loop contract on prompt_user (contracts/src/extract.c.spec); constant 0 here */
int vg_quiet; unsigned vg_raw_sunk;

/* ---------------------------------------------------------------- process / stdio stand-ins */
/* ASSUME: exit(c) does not return; the status the parent process sees is c & 0377 (POSIX keeps only the low 8
   bits of the value handed to exit() or returned from main). */
static void vg_exit(int c)
{
	__CPROVER_assert(((unsigned) c & 0xffu) != 0, "C07: every exit() inside the tool is an error exit: status (low 8 bits) is non-zero");
	__CPROVER_assume(0);
}
#define exit(c) vg_exit(c)

/* ASSUME: printf / fprintf / safe_printf / safe_fprintf / fflush write to the terminal streams only and do not
   influence control flow (their results are ignored by the code; what they print is the print unit's subject, C18). */
#define printf(...)        0
#define fprintf(...)       0
#define safe_printf(...)   0
#define safe_fprintf(...)  0
#define fflush(s)          0

#if defined(VG_MC_L) || defined(VG_MC_FULL)
/* ================================================================= src/extract.c is part of the program */
#ifdef VG_MC_L
/* (A): strings live in arenas of VG_N bytes with arbitrary contents and a NUL in the last byte (any length
   < VG_N, every byte value); nothing is unwound over them - every loop of src/extract.c that walks a string
   has a loop contract (contracts/src/extract.c.spec, #ifdef VG_MC_L), and libc's string functions are the
   loop-free over-approximations below. */
#ifndef VG_N
#define VG_N 64
#endif
#define VG_STRCAP VG_N
#else
#ifndef VG_S
#define VG_S 2                          /* BOUND (VG_MC_FULL): header path, header filename, link target: at most VG_S bytes each */
#endif
#define VG_STRCAP (VG_S + 1)
#define VG_FULL (VG_CMDLEN + 2 * VG_S + 1) /* longest string file_full_path can build: extract_path is a suffix of the command argument */
#define VG_CAP  (VG_FULL + 2)           /* capacity of the modelled heap blocks */
#endif
#ifndef VG_CMDLEN
#define VG_CMDLEN 5
#endif

LHAFileHeader vg_hdr;
char vg_hpath[VG_STRCAP], vg_hfile[VG_STRCAP], vg_target[VG_STRCAP];
static char vg_reader_obj;              /* LHAReader is opaque to src/: only its address is used */
#define vg_reader ((LHAReader *) &vg_reader_obj)

/* an arbitrary decoded header: every field arbitrary, strings arbitrary bytes (NULL or present) */
static void vg_any_header(void)
{
	__CPROVER_havoc_object(&vg_hdr);
	__CPROVER_havoc_object(vg_hpath); __CPROVER_havoc_object(vg_hfile); __CPROVER_havoc_object(vg_target);
	vg_hpath[VG_STRCAP - 1] = 0; vg_hfile[VG_STRCAP - 1] = 0; vg_target[VG_STRCAP - 1] = 0;
	vg_hdr.compress_method[5] = 0;
	vg_hdr.path = nondet_bool() ? vg_hpath : NULL;
	vg_hdr.filename = nondet_bool() ? vg_hfile : NULL;
	vg_hdr.symlink_target = nondet_bool() ? vg_target : NULL;
}

/* ASSUME: fwrite(buf, 1, n, stdout) returns how many of the n bytes stdout accepted (<= n); fewer than n is a
   write error - for 'lha p' that is the one way a member can fail (counted in vg_env_fail). */
static size_t vg_fwrite(size_t n)
{
	size_t k = nondet_size_t();
	__CPROVER_assume(k <= n);
	if (k < n) vg_env_fail = 1;
	return k;
}
#define fwrite(p, s, n, f) vg_fwrite(n)

char *vg_dup_ptr;                       /* the copy make_parent_directories is working on (NULL: none for this member yet) */
unsigned vg_line, vg_col;
#ifdef VG_MC_L
/* ASSUME: getchar returns EOF or a byte (any sequence: the prompt loops are closed by loop contracts). */
static int vg_getchar(void)
{
	int c = nondet_int();
	__CPROVER_assume(c >= -1 && c <= 255);
	return c;
}
/* ASSUME: malloc returns NULL or a fresh block; strlen(s) is the offset of a NUL in s; strcat writes only into
   the object dst points into and leaves it NUL-terminated; strdup returns NULL or a fresh NUL-terminated block;
   strchr(s, c) returns NULL or a pointer to an occurrence of c at or after s in the same object.  These are
   loop-free OVER-approximations (any NUL / any occurrence instead of the first; contents of the built strings
   arbitrary): every behaviour of the real functions is included, and no verdict depends on string contents.
   That the sizes asked for cover what is written is C08 (units print / extractcli); blocks have VG_N bytes here. */
#define VG_ROOM(p) (__CPROVER_OBJECT_SIZE(p) - VG_OFF(p))
static void *vg_malloc(size_t n)
{
	char *p;
	(void) n;
	if (nondet_bool()) return NULL;
	p = malloc(VG_N);
	__CPROVER_assume(p != NULL);
	return p;
}
size_t vg_k;                            /* Skolem: position of a byte other than '/' and NUL in the strdup copy */
static size_t vg_strlen(const char *s)
{
	size_t n = nondet_size_t();
	__CPROVER_assume(n < VG_ROOM(s));
	__CPROVER_assume(s[n] == 0);
	if (vg_dup_ptr != NULL && s == vg_dup_ptr) __CPROVER_assume(n > vg_k);
	return n;
}
static char *vg_strcat(char *dst, const char *src)
{
	__CPROVER_assert(__CPROVER_r_ok(src, 1), "strcat: source readable");
	__CPROVER_havoc_object(dst);
	dst[VG_ROOM(dst) - 1] = 0;
	return dst;
}
static char *vg_strdup(const char *src)
{
	char *p;
	__CPROVER_assert(__CPROVER_r_ok(src, 1), "strdup: source readable");
	if (nondet_bool()) return NULL;
	p = malloc(VG_N);
	__CPROVER_assume(p != NULL);
	p[VG_N - 1] = 0;
	/* ASSUME (exclusion shared with units print / extractcli, DESIGN.md section 7): the output path handed to
	   make_parent_directories contains a character other than '/' before its NUL (for "" or "///" the function
	   computes path - 1: undefined pointer arithmetic, benign on a flat address space; no verdict is involved). */
	vg_k = nondet_size_t();
	__CPROVER_assume(vg_k < VG_N - 1 && p[vg_k] != '/' && p[vg_k] != 0);
	vg_dup_ptr = p;
	return p;
}
static char *vg_strchr(char *s, int c)
{
	size_t o = nondet_size_t(); char *q;
	if (nondet_bool()) return NULL;
	__CPROVER_assume(o < VG_ROOM(s) - 1);
	q = s + o;
	__CPROVER_assume(*q == (char) c);
	return q;
}
#define strlen vg_strlen
#define strchr vg_strchr
#else
/* ASSUME: getchar returns EOF or a byte.  BOUND: an answer line has at most VG_ANSWER_LEN characters and the
   user gives a decisive answer (y n a s, any case, or an empty line) on the VG_ANSWERS-th prompt for a member
   at the latest (the prompt loop of confirm_file_overwrite ends only when the user cooperates). */
#define VG_ANSWERS 2
#define VG_ANSWER_LEN 2
#define VG_DECISIVE(c) ((c) == 'y' || (c) == 'Y' || (c) == 'n' || (c) == 'N' || (c) == 'a' || (c) == 'A' || (c) == 's' || (c) == 'S' || (c) == '\n')
static int vg_getchar(void)
{
	int c = nondet_int();
	__CPROVER_assume(c >= -1 && c <= 255 && c != 0);
	if (c < 0) return c;
	if (vg_col >= VG_ANSWER_LEN - 1) c = '\n';
	if (vg_col == 0 && vg_line >= VG_ANSWERS - 1) __CPROVER_assume(VG_DECISIVE(c));
	if (c == '\n') { vg_line++; vg_col = 0; } else vg_col++;
	return c;
}
/* ASSUME: malloc(n) returns NULL or a fresh block of n bytes; strcat appends src with its NUL at dst's NUL;
   strdup returns NULL or a fresh copy.  The blocks have the constant capacity VG_CAP (heap objects of symbolic
   size are undecidable in practice, measured by the print unit); that the size asked for covers what is written
   is C08 and is proved in units print / extractcli - here CBMC's bounds checks against VG_CAP remain on. */
static void *vg_malloc(size_t n)
{
	char *p;
	__CPROVER_assert(n >= 1 && n <= VG_CAP, "maincli stand-in: malloc capacity suffices");
	if (nondet_bool()) return NULL;
	p = malloc(VG_CAP);
	__CPROVER_assume(p != NULL);
	return p;
}
static char *vg_strcat(char *dst, const char *src)
{
	size_t d = strlen(dst), n = strlen(src), k;
	for (k = 0; k <= n; k++) dst[d + k] = src[k];
	return dst;
}
static char *vg_strdup(const char *src)
{
	size_t n = strlen(src), k; char *p; _Bool other = 0;
	__CPROVER_assert(n + 1 <= VG_CAP, "maincli stand-in: strdup capacity suffices");
	/* ASSUME (exclusion shared with units print / extractcli, DESIGN.md section 7): the output path handed to
	   make_parent_directories contains a character other than '/' (for "" or "///" the function computes
	   path - 1: undefined pointer arithmetic, benign on a flat address space; no verdict is involved). */
	for (k = 0; k < n; k++) if (src[k] != '/') other = 1;
	__CPROVER_assume(other);
	if (nondet_bool()) return NULL;
	p = malloc(VG_CAP);
	__CPROVER_assume(p != NULL);
	for (k = 0; k <= n; k++) p[k] = src[k];
	vg_dup_ptr = p;
	return p;
}
#endif
#undef getchar
#define getchar vg_getchar
#undef strdup
#define strdup vg_strdup

/* ---------------------------------------------------------------- public library API: verdict-recording stand-ins */
static void progress_callback(unsigned int block, unsigned int num_blocks, void *data);

/* ASSUME: lha_reader_check / lha_reader_extract return 0 for "this member is bad" and non-zero for "good"
   (what "good" means - decoded length and CRC-16 equal the header fields - is their contract in unit reader,
   groups reader.do_decode / reader.lha_reader_check / reader.extract_file); they may invoke the progress
   callback they are given with the callback data they are given; they do not touch the tool's variables. */
static int vg_verdict(LHADecoderProgressCallback callback, void *callback_data)
{
	int v = nondet_int();
	__CPROVER_assert(callback == progress_callback, "the library is given the tool's progress callback");
#ifdef VG_MC_FULL
	/* BOUND (VG_MC_FULL): the progress bar has at most 2 dots (the callback's own loop is proved for every length in
	   maincli.test_file_crc / maincli.extract_archive and print.progress_callback) */
	if (nondet_bool()) { unsigned vg_nb = nondet_uint(); __CPROVER_assume(vg_nb <= 2); callback(nondet_uint(), vg_nb, callback_data); }
#else
	if (nondet_bool()) callback(nondet_uint(), nondet_uint(), callback_data);
#endif
	vg_verdicts++;
	if (v == 0) vg_fail_seen = 1;
	return v;
}
int lha_reader_check(LHAReader *reader, LHADecoderProgressCallback callback, void *callback_data)
{
	__CPROVER_assert(reader == vg_reader, "reader passed through");
	return vg_verdict(callback, callback_data);
}
int lha_reader_extract(LHAReader *reader, char *filename, LHADecoderProgressCallback callback, void *callback_data)
{
	__CPROVER_assert(reader == vg_reader, "reader passed through");
	(void) filename;
	return vg_verdict(callback, callback_data);
}
int lha_reader_current_is_fake(LHAReader *reader) { (void) reader; return nondet_bool(); }

/* ASSUME: lha_reader_read stores at most buf_len bytes of member data in buf and returns their number, 0 at the
   end of the member OR ON A DECODING ERROR: it issues no verdict ('lha p' never learns whether length and CRC
   matched - see the plan note of maincli.print_archive).  BOUND (VG_MC_FULL only): at most VG_CHUNKS non-empty
   chunks per member; under VG_MC_L the read loop is closed by its invariant. */
#define VG_CHUNKS 2
unsigned vg_chunks;
size_t lha_reader_read(LHAReader *reader, void *buf, size_t buf_len)
{
	size_t n = nondet_size_t();
	__CPROVER_assert(reader == vg_reader, "reader passed through");
	__CPROVER_assert(__CPROVER_w_ok(buf, buf_len), "lha_reader_read: destination writable");
#ifdef VG_MC_FULL
	if (vg_chunks >= VG_CHUNKS) return 0;
#endif
	__CPROVER_assume(n <= buf_len);
	if (n > 0) vg_chunks++;
	return n;
}

/* ASSUME: lha_arch_exists is a query (stat) answering NONE / FILE / DIRECTORY / ERROR; lha_arch_mkdir returns 0
   on failure.  The tool is specified to fail a member whose parent directories cannot be provided: those
   answers are counted in vg_env_fail.  Which of the two callers asks is told by the argument: only
   make_parent_directories passes its strdup copy (cut at a '/'). */
LHAFileType lha_arch_exists(char *filename)
{
	unsigned k = nondet_uint(); LHAFileType r;
	r = k == 0 ? LHA_FILE_NONE : k == 1 ? LHA_FILE_FILE : k == 2 ? LHA_FILE_DIRECTORY : LHA_FILE_ERROR;
	if (vg_dup_ptr != NULL && filename == vg_dup_ptr && (r == LHA_FILE_FILE || r == LHA_FILE_ERROR)) vg_env_fail = 1;
	return r;
}
int lha_arch_mkdir(char *path, unsigned int unix_perms)
{
	int r = nondet_bool();
	(void) path; (void) unix_perms;
	if (!r) vg_env_fail = 1;
	return r;
}

/* ASSUME: lha_filter_next_file returns NULL (end of archive, or a header that cannot be read) or the decoded
   header of the next selected member (unit extractcli, groups filter.*).  VG_MC_L: any number of times.
   BOUND (VG_MC_FULL): at most VG_MEMBERS members. */
#ifndef VG_MEMBERS
#define VG_MEMBERS 3
#endif
LHAFileHeader *lha_filter_next_file(LHAFilter *filter)
{
	__CPROVER_assert(filter->reader == vg_reader, "filter carries the reader it was initialised with");
	if (vg_env_fail || vg_fail_seen) vg_next_after_fail = 1;
#ifdef VG_MC_FULL
	if (vg_members >= VG_MEMBERS) return NULL;
#endif
	if (nondet_bool()) return NULL;
	vg_members++; vg_chunks = 0; vg_line = 0; vg_col = 0; vg_dup_ptr = NULL;
	vg_any_header();
	return &vg_hdr;
}

#define malloc vg_malloc
#define strcat vg_strcat
#endif /* extract.c part */

#ifdef VG_MC_L
/* ================================================================= (A) member loops, any number of members */
LHAOptions vg_options; LHAFilter vg_filter; char vg_epath[VG_N];
/* what one turn of a member loop may write (named by the loop contracts in contracts/src/extract.c.spec) */
#define VG_MC_FRAME vg_fail_seen, vg_env_fail, vg_next_after_fail, vg_verdicts, vg_members, vg_chunks, vg_line, vg_col, vg_dup_ptr, vg_k, \
	__CPROVER_object_whole(&vg_hdr), __CPROVER_object_whole(vg_hpath), __CPROVER_object_whole(vg_hfile), __CPROVER_object_whole(vg_target), \
	vg_options.overwrite_policy

#include "src/extract.c"

static void vg_begin(void)
{
	vg_fail_seen = 0; vg_env_fail = 0; vg_next_after_fail = 0; vg_verdicts = 0; vg_members = 0; vg_chunks = 0; vg_line = 0; vg_col = 0;
	vg_dup_ptr = NULL; vg_k = 0; vg_quiet = 0; vg_raw_sunk = 0;
	__CPROVER_havoc_object(&vg_options); __CPROVER_havoc_object(vg_epath); vg_epath[VG_N - 1] = 0;
	vg_options.extract_path = nondet_bool() ? vg_epath : NULL;
	vg_filter.reader = vg_reader; vg_filter.filters = NULL; vg_filter.num_filters = 0;
	vg_any_header();
}

/* lha t: the result is 1 exactly if no selected member received a failing verdict; without 'n' every selected
   member is tested exactly once */
void h_test_file_crc(void)
{
	int r;
	vg_begin();
	r = test_file_crc(&vg_filter, &vg_options);
	__CPROVER_assert(r == 0 || r == 1, "C07 test_file_crc: result is 0 or 1");
	__CPROVER_assert(r == 1 ==> !vg_fail_seen, "C07 test_file_crc: success is reported only if no selected member received a failing verdict");
	__CPROVER_assert(!vg_fail_seen ==> r == 1, "C07 test_file_crc: and it is reported if none did");
	__CPROVER_assert(!vg_options.dry_run ==> vg_verdicts == vg_members, "C07 test_file_crc: every selected member is tested (one verdict per member)");
	__CPROVER_assert(!vg_env_fail, "lha t does not touch the file system");
	VG_CANARY("test_file_crc");
}
/* lha x / e (not a dry run): a failing verdict forces result 0; the only other reason for 0 is a parent
   directory that cannot be provided */
void h_extract_archive(void)
{
	int r;
	vg_begin();
	vg_options.dry_run = 0;
	r = extract_archive(&vg_filter, &vg_options);
	__CPROVER_assert(r == 0 || r == 1, "C07 extract_archive: result is 0 or 1");
	__CPROVER_assert(r == 1 ==> !vg_fail_seen, "C07 extract_archive: success is reported only if no selected member received a failing verdict");
	__CPROVER_assert(r == 1 ==> !vg_env_fail, "C07 extract_archive: nor failed for want of a parent directory");
	__CPROVER_assert((!vg_fail_seen && !vg_env_fail) ==> r == 1, "C07 extract_archive: and it is reported if no member failed");
	VG_CANARY("extract_archive");
}
/* lha p (not a dry run): stops with 0 at the first member whose data stdout does not take, else 1 */
void h_print_archive(void)
{
	int r;
	vg_begin();
	vg_options.dry_run = 0;
	r = print_archive(&vg_filter, &vg_options);
	__CPROVER_assert(r == 0 || r == 1, "C07 print_archive: result is 0 or 1");
	__CPROVER_assert(r == 1 ==> !vg_env_fail, "C07 print_archive: success is reported only if every selected member was written out completely");
	__CPROVER_assert(!vg_env_fail ==> r == 1, "C07 print_archive: and it is reported if all were");
	__CPROVER_assert(!vg_next_after_fail, "C07 print_archive: no further member is read after a failed one");
	__CPROVER_assert(vg_verdicts == 0 && !vg_fail_seen, "print_archive asks the library for no verdict");
	VG_CANARY("print_archive");
}
/* prompt_user's contract (replaced at its call in maincli.extract_archive) is enforced here on the dfcc route,
   with the print unit's clauses on its do-while loop in force (-DVG_MC_PU): it writes nothing the caller sees */
void h_prompt_user(void)
{
	char vg_msg[2] = "?";
	vg_quiet = 0; vg_raw_sunk = 0;
	(void) prompt_user(vg_msg);
	VG_CANARY("prompt_user");
}
#endif /* VG_MC_L */

#if defined(VG_MC_FULL) || defined(VG_MC_MAIN)
/* ================================================================= src/main.c is part of the program */
/* ASSUME: fopen returns NULL or a stream; fclose's result is ignored by the code. */
static FILE vg_file;
static FILE *vg_fopen(void) { return nondet_bool() ? &vg_file : NULL; }
#define fopen(n, m) vg_fopen()
#define fclose(f)   0
/* ASSUME: lha_input_stream_from_FILE / lha_reader_new succeed (do_command does not test their results; on
   allocation failure the real tool would pass NULL on - outside C07); lha_filter_init (src/filter.c, group
   filter.lha_filter_init) stores its arguments; lha_reader_free / lha_input_stream_free / list_file_basic /
   list_file_verbose (src/list.c, unit print) do not influence the result of do_command. */
static char vg_stream_obj;
#ifdef VG_MC_MAIN
static char vg_reader_obj;
#define vg_reader ((LHAReader *) &vg_reader_obj)
#endif
unsigned vg_lists, vg_frees;
LHAInputStream *lha_input_stream_from_FILE(FILE *stream) { (void) stream; return (LHAInputStream *) &vg_stream_obj; }
LHAReader *lha_reader_new(LHAInputStream *stream) { (void) stream; return vg_reader; }
void lha_filter_init(LHAFilter *filter, LHAReader *reader, char **filters, unsigned int num_filters)
{
	filter->reader = reader; filter->filters = filters; filter->num_filters = num_filters;
}
void lha_reader_free(LHAReader *reader) { __CPROVER_assert(reader == vg_reader, "reader passed through"); vg_frees++; }
void lha_input_stream_free(LHAInputStream *stream) { (void) stream; }
void list_file_basic(LHAFilter *filter, LHAOptions *options, FILE *fstream) { (void) filter; (void) options; (void) fstream; vg_lists++; }
void list_file_verbose(LHAFilter *filter, LHAOptions *options, FILE *fstream) { (void) filter; (void) options; (void) fstream; vg_lists++; }

/* which of the three commands ran, with which dry-run flag, and what it returned */
int vg_ran_test, vg_ran_extract, vg_ran_print, vg_dry, vg_cmd_ret;

#ifdef VG_MC_MAIN
/* stand-ins with the contract of (A): an arbitrary result (the contract says 0 or 1; main is correct for any int) */
int test_file_crc(LHAFilter *filter, LHAOptions *options)   { (void) filter; vg_ran_test++;    vg_dry = options->dry_run; vg_cmd_ret = nondet_int(); return vg_cmd_ret; }
int extract_archive(LHAFilter *filter, LHAOptions *options) { (void) filter; vg_ran_extract++; vg_dry = options->dry_run; vg_cmd_ret = nondet_int(); return vg_cmd_ret; }
int print_archive(LHAFilter *filter, LHAOptions *options)   { (void) filter; vg_ran_print++;   vg_dry = options->dry_run; vg_cmd_ret = nondet_int(); return vg_cmd_ret; }
#else
#include "src/extract.c"
#undef malloc
#undef strcat
#undef strdup
/* observation wrappers (ghost recording only) around the REAL functions, for the calls made by src/main.c */
static int vg_obs_test(LHAFilter *f, LHAOptions *o)    { vg_ran_test++;    vg_dry = o->dry_run; vg_cmd_ret = test_file_crc(f, o);   return vg_cmd_ret; }
static int vg_obs_extract(LHAFilter *f, LHAOptions *o) { vg_ran_extract++; vg_dry = o->dry_run; vg_cmd_ret = extract_archive(f, o); return vg_cmd_ret; }
static int vg_obs_print(LHAFilter *f, LHAOptions *o)   { vg_ran_print++;   vg_dry = o->dry_run; vg_cmd_ret = print_archive(f, o);   return vg_cmd_ret; }
#define test_file_crc(f, o)   vg_obs_test(f, o)
#define extract_archive(f, o) vg_obs_extract(f, o)
#define print_archive(f, o)   vg_obs_print(f, o)
#endif

/* ---- the symbolic command line: lha <command+options> <archive> [<member filter>]
   BOUND (plain-route groups): command argument of at most VG_CMDLEN arbitrary bytes, archive name of at most
   VG_ARCLEN arbitrary bytes (so "-" = stdin is included), at most one filter argument, argc in 1..4.
   VG_MC_LM (group maincli.main.inductive, legacy route on the WOVEN src/main.c): the command argument and the
   archive name live in arenas of VG_CMD_N bytes (any length < VG_CMD_N, every byte value); the option loop of
   parse_options is closed by its loop contract (contracts/src/main.c.spec), strlen is the loop-free
   over-approximation "offset of a NUL" (ASSUME as for vg_strlen above). */
#ifdef VG_MC_LM
#ifndef VG_CMD_N
#define VG_CMD_N 64
#endif
#undef VG_CMDLEN
#define VG_CMDLEN (VG_CMD_N - 1)
#define VG_ARCLEN (VG_CMD_N - 1)
static size_t vg_strlen_lm(const char *s)
{
	size_t n = nondet_size_t();
	__CPROVER_assume(n < __CPROVER_OBJECT_SIZE(s) - VG_OFF(s));
	__CPROVER_assume(s[n] == 0);
	return n;
}
#define strlen vg_strlen_lm
#else
#ifndef VG_CMDLEN
#define VG_CMDLEN 5
#endif
#define VG_ARCLEN 2
#endif
char vg_arg0[4] = "lha", vg_cmd[VG_CMDLEN + 1], vg_arc[VG_ARCLEN + 1], vg_flt[2];
char *vg_argv[5];

#include "src/main.c"

void h_main(void)
{
	int argc = nondet_int(), r, letter, selected;
	__CPROVER_assume(argc >= 1 && argc <= 4);
	__CPROVER_havoc_object(vg_cmd); __CPROVER_havoc_object(vg_arc); __CPROVER_havoc_object(vg_flt);
	vg_cmd[VG_CMDLEN] = 0; vg_arc[VG_ARCLEN] = 0; vg_flt[1] = 0;
	vg_arg0[0] = 'l'; vg_arg0[1] = 'h'; vg_arg0[2] = 'a'; vg_arg0[3] = 0;
	vg_argv[0] = vg_arg0; vg_argv[1] = vg_cmd; vg_argv[2] = vg_arc; vg_argv[3] = vg_flt; vg_argv[4] = NULL;
#ifdef VG_MC_LETTER
	/* BOUND (per-command groups): exactly "lha <command+options> <archive>", no member filter arguments (they only travel to
	   the lha_filter_init stand-in; group maincli.main has them symbolic).  argc and argv[1][0] are constants here so that
	   the symbolic execution follows the one command only. */
	argc = 3; vg_argv[3] = NULL;
#else
	vg_argv[argc] = NULL;
#endif
	vg_fail_seen = 0; vg_env_fail = 0; vg_next_after_fail = 0; vg_verdicts = 0; vg_members = 0;
	vg_ran_test = 0; vg_ran_extract = 0; vg_ran_print = 0; vg_dry = 0; vg_cmd_ret = 1; vg_lists = 0; vg_frees = 0;

#ifdef VG_MC_LETTER
	/* case split on the command letter (a constant of the code): one group per command */
#ifdef VG_MC_DASH
	vg_cmd[0] = '-'; vg_cmd[1] = VG_MC_LETTER;
#else
	vg_cmd[0] = VG_MC_LETTER;
#endif
#endif
	r = main(argc, vg_argv);                /* error exits (exit(-1)) are checked in vg_exit and end the path there */

	/* ASSUME: the exit status of the process is the low 8 bits of main's return value (POSIX) */
	__CPROVER_assert(r >= 0 && r <= 255, "C07 main: the value returned is a valid exit status (no truncation to 8 bits can turn a failure into 0)");
	/* the command letter as the user wrote it (a leading '-' is allowed); the one-argument form means 'l' */
	letter = (argc == 2) ? 'l' : (vg_cmd[0] == '-' ? vg_cmd[1] : vg_cmd[0]);
	selected = vg_ran_test + vg_ran_extract + vg_ran_print;
	__CPROVER_assert(letter == 'l' || letter == 'v' || letter == 't' || letter == 'x' || letter == 'e' || letter == 'p', "main returns only after running a command");
	__CPROVER_assert(vg_ran_test == (letter == 't') && vg_ran_extract == (letter == 'x' || letter == 'e') && vg_ran_print == (letter == 'p') &&
	                 vg_lists == (letter == 'l' || letter == 'v'), "C07 main: t runs test_file_crc, x / e run extract_archive, p runs print_archive, l / v list - once");
	__CPROVER_assert(selected == 1 ==> r == (vg_cmd_ret == 0), "C07 main: exit status is 0 exactly if the command function returned non-zero (success)");
	__CPROVER_assert(selected == 0 ==> r == 0, "listing never fails");
	__CPROVER_assert(vg_frees == 1, "reader released once");
#ifdef VG_MC_FULL
	/* end to end: non-zero status <=> some selected member failed (failing library verdict, or - extract / print
	   only - the environment failures counted in vg_env_fail); holds for every command and also under 'n',
	   where no verdict is asked for and nothing can fail */
	__CPROVER_assert(vg_fail_seen ==> r != 0, "C07 main: a member with a failing library verdict makes the exit status non-zero");
	__CPROVER_assert(vg_env_fail ==> r != 0, "C07 main: a member that failed for want of a parent directory / a short write makes the exit status non-zero");
	__CPROVER_assert(r != 0 ==> (vg_fail_seen || vg_env_fail), "C07 main: the exit status is non-zero only if some selected member failed");
	__CPROVER_assert((letter == 't' && !vg_dry) ==> vg_verdicts == vg_members, "C07 lha t: every selected member is tested");
	__CPROVER_assert(vg_dry ==> (vg_verdicts == 0 && r == 0), "dry run: no verdicts, status 0");
#endif
	VG_CANARY("main");
}
#endif

/* Reference implementations of C library string functions for which CBMC 6.11 ships no model, for the plain-route
   (unwound, anchor-independent) groups: a rewrite of a function under check may start to use them.
   ASSUME: strstr/strpbrk/strspn/strcspn/strnlen behave as the C standard says (the bodies below). */
#ifndef VG_LIBC_H
#define VG_LIBC_H
#include <stddef.h>
char *strstr(const char *h, const char *n)
{
	size_t i, j;
	for (i = 0; ; i++) {
		for (j = 0; n[j] != '\0' && h[i + j] == n[j]; j++) { }
		if (n[j] == '\0') return (char *) (h + i);
		if (h[i + j] == '\0') return NULL;      /* haystack exhausted while matching at i: no later match is possible */
	}
}
char *strpbrk(const char *s, const char *a)
{
	size_t i, j;
	for (i = 0; s[i] != '\0'; i++) for (j = 0; a[j] != '\0'; j++) if (s[i] == a[j]) return (char *) (s + i);
	return NULL;
}
size_t strspn(const char *s, const char *a)
{
	size_t i, j;
	for (i = 0; s[i] != '\0'; i++) { for (j = 0; a[j] != '\0' && a[j] != s[i]; j++) { } if (a[j] == '\0') break; }
	return i;
}
size_t strcspn(const char *s, const char *a)
{
	size_t i, j;
	for (i = 0; s[i] != '\0'; i++) { for (j = 0; a[j] != '\0' && a[j] != s[i]; j++) { } if (a[j] != '\0') break; }
	return i;
}
size_t strnlen(const char *s, size_t n) { size_t i; for (i = 0; i < n && s[i] != '\0'; i++) { } return i; }
#endif

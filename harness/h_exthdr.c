/* Unit exthdr: lib/ext_header.c (extended-header decoders + dispatcher) and lib/lha_endian.c
   (little/big-endian integer decoders) under contract.  Vocabulary: vg_exthdr.h. */
#include "vg_exthdr.h"

#include "lib/lha_endian.c"
#include "lib/ext_header.c"

static void vg_havoc(void)
{
	__CPROVER_havoc_object(&VG_HDR);
	vg_name_len = nondet_size_t();
	vg_k = nondet_size_t();
	vg_malloc_ok = nondet_int();
}

/* ---- lha_endian.c ---- */
void h_le16(void) { uint8_t *b; lha_decode_uint16(b); VG_CANARY("lha_decode_uint16"); }
void h_le32(void) { uint8_t *b; lha_decode_uint32(b); VG_CANARY("lha_decode_uint32"); }
void h_le64(void) { uint8_t *b; lha_decode_uint64(b); VG_CANARY("lha_decode_uint64"); }
void h_be16(void) { uint8_t *b; lha_decode_be_uint16(b); VG_CANARY("lha_decode_be_uint16"); }
void h_be32(void) { uint8_t *b; lha_decode_be_uint32(b); VG_CANARY("lha_decode_be_uint32"); }

/* ---- ext_header.c decoders ---- */
#define H_DECODER(entry, fn) \
	void entry(void) { LHAFileHeader *h; uint8_t *d; size_t n; vg_havoc(); fn(h, d, n); VG_CANARY(#fn); }
H_DECODER(h_common, ext_header_common_decoder)
H_DECODER(h_filename, ext_header_filename_decoder)
H_DECODER(h_path, ext_header_path_decoder)
H_DECODER(h_wints, ext_header_windows_timestamps)
H_DECODER(h_perms, ext_header_unix_perms_decoder)
H_DECODER(h_uidgid, ext_header_unix_uid_gid_decoder)
H_DECODER(h_user, ext_header_unix_username_decoder)
H_DECODER(h_group, ext_header_unix_group_decoder)
H_DECODER(h_time, ext_header_unix_timestamp_decoder)
H_DECODER(h_os9, ext_header_os9_decoder)

/* ---- table lookup, dispatcher ---- */
void h_for_num(void) { uint8_t n; ext_header_for_num(n); VG_CANARY("ext_header_for_num"); }
void h_decode(void)
{
	LHAFileHeader *h; uint8_t num; uint8_t *d; size_t n;
	vg_havoc();
	lha_ext_header_decode(h, num, d, n);
	VG_CANARY("lha_ext_header_decode");
}

/* The type table: codes, decoders under contract, and the minimum lengths of the LHA format. */
void h_table(void)
{
	__CPROVER_assert(NUM_HEADER_TYPES == 10, "ten extended-header types");
	__CPROVER_assert(VG_ROW_OK(0, lha_ext_header_common, VG_T_COMMON, ext_header_common_decoder, 2), "type table row 0: common, min_len 2");
	__CPROVER_assert(VG_ROW_OK(1, lha_ext_header_filename, VG_T_FILENAME, ext_header_filename_decoder, 1), "type table row 1: file name, min_len 1");
	__CPROVER_assert(VG_ROW_OK(2, lha_ext_header_path, VG_T_PATH, ext_header_path_decoder, 1), "type table row 2: path, min_len 1");
	__CPROVER_assert(VG_ROW_OK(3, lha_ext_header_unix_perms, VG_T_PERMS, ext_header_unix_perms_decoder, 2), "type table row 3: unix perms, min_len 2");
	__CPROVER_assert(VG_ROW_OK(4, lha_ext_header_unix_uid_gid, VG_T_UIDGID, ext_header_unix_uid_gid_decoder, 4), "type table row 4: uid/gid, min_len 4");
	__CPROVER_assert(VG_ROW_OK(5, lha_ext_header_unix_username, VG_T_USER, ext_header_unix_username_decoder, 1), "type table row 5: user name, min_len 1");
	__CPROVER_assert(VG_ROW_OK(6, lha_ext_header_unix_group, VG_T_GROUP, ext_header_unix_group_decoder, 1), "type table row 6: group name, min_len 1");
	__CPROVER_assert(VG_ROW_OK(7, lha_ext_header_unix_timestamp, VG_T_TIME, ext_header_unix_timestamp_decoder, 4), "type table row 7: unix timestamp, min_len 4");
	__CPROVER_assert(VG_ROW_OK(8, lha_ext_header_windows_timestamps, VG_T_WINTS, ext_header_windows_timestamps, 24), "type table row 8: windows timestamps, min_len 24");
	__CPROVER_assert(VG_ROW_OK(9, lha_ext_header_os9, VG_T_OS9, ext_header_os9_decoder, 12), "type table row 9: OS-9, min_len 12");
	__CPROVER_assert(VG_TABLE_OK, "VG_TABLE_OK holds of the initial table");
	{
		uint8_t n = nondet_uchar();
		__CPROVER_assert(!VG_KNOWN_TYPE(n) || VG_MIN_LEN(n) == (n == VG_T_COMMON ? lha_ext_header_common.min_len :
			n == VG_T_FILENAME ? lha_ext_header_filename.min_len : n == VG_T_PATH ? lha_ext_header_path.min_len :
			n == VG_T_PERMS ? lha_ext_header_unix_perms.min_len : n == VG_T_UIDGID ? lha_ext_header_unix_uid_gid.min_len :
			n == VG_T_USER ? lha_ext_header_unix_username.min_len : n == VG_T_GROUP ? lha_ext_header_unix_group.min_len :
			n == VG_T_TIME ? lha_ext_header_unix_timestamp.min_len : n == VG_T_WINTS ? lha_ext_header_windows_timestamps.min_len :
			lha_ext_header_os9.min_len), "contract vocabulary VG_MIN_LEN equals the table's min_len");
	}
	VG_CANARY("table");
}

/* Order-independent statement of the type lookup (plain route, real loop unwound; does not depend on the table layout
   nor on the loop anchors): for EVERY type byte, the real ext_header_for_num returns the entry for that type -- its
   code, its decoder and the format's minimum length -- and NULL for every other byte. */
void h_lookup(void)
{
	uint8_t n = nondet_uchar();
	LHAExtHeaderType *t = ext_header_for_num(n);
	__CPROVER_assert(VG_KNOWN_TYPE(n) || t == NULL, "C05/C08 lookup: unknown extended-header types have no decoder");
	__CPROVER_assert(!VG_KNOWN_TYPE(n) || (t != NULL && t->num == n), "C05 lookup: every defined extended-header type is found, under its own code");
	__CPROVER_assert(!VG_KNOWN_TYPE(n) || t == NULL || t->min_len == VG_MIN_LEN(n), "C08 lookup: minimum data length of the type is the format's");
	__CPROVER_assert(!VG_KNOWN_TYPE(n) || t == NULL || t->decoder == (
		n == VG_T_COMMON ? ext_header_common_decoder : n == VG_T_FILENAME ? ext_header_filename_decoder :
		n == VG_T_PATH ? ext_header_path_decoder : n == VG_T_WINTS ? ext_header_windows_timestamps :
		n == VG_T_PERMS ? ext_header_unix_perms_decoder : n == VG_T_UIDGID ? ext_header_unix_uid_gid_decoder :
		n == VG_T_GROUP ? ext_header_unix_group_decoder : n == VG_T_USER ? ext_header_unix_username_decoder :
		n == VG_T_TIME ? ext_header_unix_timestamp_decoder : ext_header_os9_decoder),
		"C05 lookup: the type's own decoder is selected");
	VG_CANARY("lookup");
}

/* ---- C20/C08 ownership history (bounded, real code, no contracts) ----
   A header with no strings yet receives VG_LC_K extended headers of any types and any contents (each data
   block an exactly-sized heap object of at most VG_LC_N bytes), every malloc may fail; then the owner releases
   the four string fields the way lha_file_header_free does.  Checked: no invalid/double free, no access outside
   the data blocks, and (--memory-leak-check) nothing is left allocated. */
#ifndef VG_LC_N
#define VG_LC_N 3
#endif
#ifndef VG_LC_K
#define VG_LC_K 3
#endif
void h_lifecycle(void)
{
	unsigned k;
	__CPROVER_havoc_object(&VG_HDR);
	vg_malloc_ok = nondet_int();   /* plain route: statics are not havocked for us */
	VG_HDR.filename = NULL; VG_HDR.path = NULL; VG_HDR.unix_username = NULL; VG_HDR.unix_group = NULL;
	for (k = 0; k < VG_LC_K; k++) {
		uint8_t num = nondet_uchar();
		size_t n = nondet_size_t();
		uint8_t *d;
		__CPROVER_assume(n <= VG_LC_N);
		d = malloc(n);
		if (d == NULL) break;
		__CPROVER_havoc_object(d);
		lha_ext_header_decode(&VG_HDR, num, d, n);
		free(d);
	}
	free(VG_HDR.filename);
	free(VG_HDR.path);
	free(VG_HDR.unix_username);
	free(VG_HDR.unix_group);
	VG_CANARY("lifecycle");
}

/* C11 on the real code without contract instrumentation (robust against changes of loop shape): every file name
   produced by the 0x01 (file name) and every path produced by the 0x02 (path) extended-header decoder, for
   data of at most VG_NM_N bytes of ANY value, loops unwound: the stored name has no '/'; the stored path is
   NUL-terminated, ends in '/', has no 0xFF left.  BOUNDED (data length), complements the inductive
   exthdr.filename / exthdr.path proofs. */
#ifndef VG_NM_N
#define VG_NM_N 10
#endif
void h_names_bounded(void)
{
	size_t n = nondet_size_t(), j;
	uint8_t *d;
	_Bool which = nondet_bool();
	__CPROVER_havoc_object(&VG_HDR);
	vg_malloc_ok = nondet_int();
	VG_HDR.filename = NULL; VG_HDR.path = NULL; VG_HDR.unix_username = NULL; VG_HDR.unix_group = NULL;
	__CPROVER_assume(n >= 1 && n <= VG_NM_N);
	d = malloc(n);
	__CPROVER_assume(d != NULL);
	__CPROVER_havoc_object(d);
	if (which) {
		if (lha_ext_header_decode(&VG_HDR, 0x01, d, n) && VG_HDR.filename != NULL) {
			_Bool ended = 0;
			for (j = 0; j <= VG_NM_N; j++) {
				if (!ended) {
					__CPROVER_assert(j <= n, "C11 bounded: stored file name is NUL-terminated within its block");
					if (VG_HDR.filename[j] == 0) ended = 1;
					else __CPROVER_assert(VG_HDR.filename[j] != '/', "C11 bounded: file name from the file-name extended header contains no '/'");
				}
			}
			__CPROVER_assert(ended, "C11 bounded: file name terminated");
		}
	} else {
		if (lha_ext_header_decode(&VG_HDR, 0x02, d, n) && VG_HDR.path != NULL) {
			size_t len = 0; _Bool ended = 0;
			for (j = 0; j <= VG_NM_N + 1; j++) {
				if (!ended) {
					__CPROVER_assert(j <= n + 1, "C11 bounded: stored path is NUL-terminated within its block");
					if (VG_HDR.path[j] == 0) { ended = 1; len = j; }
					else __CPROVER_assert((uint8_t) VG_HDR.path[j] != 0xff, "C11 bounded: 0xFF separators are converted to '/'");
				}
			}
			__CPROVER_assert(ended && (len < n || VG_HDR.path[len - 1] == '/'), "C11 bounded: path from the path extended header ends in '/' (unless the data had an embedded NUL, which ends the C string early)");
		}
	}
	VG_CANARY("names_bounded");
}

/* Unit print, part 3: src/extract.c (lha t / x / e / xn / p output) -- C18, memory safety of the same code C08.
   Printing functions are run unmodified; the obligation sits in the sinks of vg_print.h.  The file name that
   is printed is built by file_full_path from header strings and options->extract_path, all arbitrary bytes. */
#define VG_WITH_HEADER 1
#include <errno.h>
#include "vg_print.h"
#include "lib/lha_arch.h"

#define VG_CHUNKS 2     /* BOUND: print_archived_file sees at most this many data chunks */
#define VG_ANSWERS 2    /* BOUND: confirm_file_overwrite asks at most this many times, answers of at most VG_ANSWER_LEN characters */
#define VG_ANSWER_LEN 3
unsigned vg_chunks, vg_chars, vg_lines;

static void progress_callback(unsigned int block, unsigned int num_blocks, void *data);

/* ASSUME: lha_arch_exists / lha_arch_mkdir answer arbitrarily and print nothing; their argument must be a
   readable NUL-terminated string. */
static void vg_valid_string(const char *s)
{
	size_t k;
	__CPROVER_assert(s != NULL, "C08 file-system call: path is not NULL");
	for (k = 0; s[k] != 0; k++) { }
}
LHAFileType lha_arch_exists(char *filename)
{
	unsigned k = nondet_uint();
	vg_valid_string(filename);
	return k == 0 ? LHA_FILE_NONE : k == 1 ? LHA_FILE_FILE : k == 2 ? LHA_FILE_DIRECTORY : LHA_FILE_ERROR;
}
int lha_arch_mkdir(char *path, unsigned int unix_perms) { (void) unix_perms; vg_valid_string(path); return nondet_bool(); }

/* ASSUME: lha_reader_check / lha_reader_extract (lib/) print nothing themselves (lib/ contains no terminal
   output; its only fwrite goes to the extracted file) and invoke the callback they are given, any number of
   times, with the callback_data they are given and arbitrary block numbers.  One invocation stands for all
   of them: the callback's output and memory safety are proved for every (block, num_blocks) and every
   callback_data in print.progress_callback; here it runs with the output obligations off (vg_quiet) and a
   short progress bar (num_blocks == 2, block arbitrary) only to keep the callers' groups small - what the callers depend on
   is just that it sets progress->invoked. */
static int vg_decode(LHADecoderProgressCallback callback, void *callback_data)
{
	__CPROVER_assert(callback == progress_callback, "C18 decode: the callback is progress_callback, which has its own group");
	if (nondet_bool()) {
		unsigned nb = 2;   /* a constant, so that the bar loop unwinds to a constant */
		vg_quiet++;
		callback(nondet_uint(), nb, callback_data);
		vg_quiet--;
	}
	return nondet_bool();
}
int lha_reader_check(LHAReader *reader, LHADecoderProgressCallback callback, void *callback_data)
{
	(void) reader;
	return vg_decode(callback, callback_data);
}
int lha_reader_extract(LHAReader *reader, char *filename, LHADecoderProgressCallback callback, void *callback_data)
{
	(void) reader;
	if (filename != NULL) vg_valid_string(filename);
	return vg_decode(callback, callback_data);
}
int lha_reader_current_is_fake(LHAReader *reader) { (void) reader; return nondet_bool(); }
/* ASSUME: lha_reader_read stores at most buf_len bytes of FILE DATA in buf and returns their number, 0 at the
   end.  BOUND: at most VG_CHUNKS non-empty chunks. */
size_t lha_reader_read(LHAReader *reader, void *buf, size_t buf_len)
{
	size_t n = nondet_size_t();
	(void) reader;
	__CPROVER_assert(__CPROVER_w_ok(buf, buf_len), "C08 lha_reader_read: destination writable");
	if (vg_chunks >= VG_CHUNKS) return 0;
	__CPROVER_assume(n <= buf_len);
	__CPROVER_havoc_object(buf);
	if (n > 0) vg_chunks++;
	return n;
}
/* ASSUME: getchar returns EOF or a byte.  BOUND (confirm_file_overwrite groups only): see VG_ANSWER_LEN. */
int vg_getchar(void)
{
	int c = nondet_int();
	__CPROVER_assume(c >= -1 && c <= 255);
#ifdef VG_BOUND_ANSWERS
	if (vg_chars >= VG_ANSWER_LEN - 1) c = (c < 0) ? c : '\n';
	if (vg_chars == 0 && vg_lines >= VG_ANSWERS - 1) {
		/* last permitted prompt: the answer is one confirm_file_overwrite accepts (or stdin closes) */
		__CPROVER_assume(c < 0 || c == 'y' || c == 'Y' || c == 'n' || c == 'N' || c == 'a' || c == 'A' || c == 's' || c == 'S' || c == '\n');
	}
	if (c == '\n') { vg_chars = 0; vg_lines++; } else vg_chars++;
#endif
	return c;
}
#undef getchar
#define getchar vg_getchar

/* Heap strings.  A malloc'd object of SYMBOLIC size makes file_full_path undecidable in practice (SAT out of
   memory at 12 GB, measured); with a constant-capacity block it takes 1.5 s.  So the block has the constant
   capacity VG_ALLOC, the size the code asked for is kept in ghost state, and strcat - the only way
   file_full_path writes beyond result[0] - is the plain C definition plus the obligation that the result fits
   the size that was ASKED for.
   ASSUME: malloc(n) returns NULL or a fresh block of n bytes; strcat appends src including its NUL to dst;
   strdup returns NULL or a fresh copy (constant capacity VG_ALLOC here: accesses of make_parent_directories
   beyond the copy's terminator but inside the capacity would go unnoticed - that group does not claim C08). */
#define VG_ALLOC (3 * VG_S + 2)
char *vg_alloc_ptr;
size_t vg_alloc_size;
static void *vg_malloc(size_t n)
{
	char *p;
	__CPROVER_assert(n >= 1 && n <= VG_ALLOC, "C08 malloc: requested size is that of extract_path + '/' + path + filename + NUL");
	if (nondet_bool()) return NULL;
	p = malloc(VG_ALLOC);
	__CPROVER_assume(p != NULL);
	vg_alloc_ptr = p; vg_alloc_size = n;
	return p;
}
static char *vg_strcat(char *dst, const char *src)
{
	size_t d = strlen(dst), n = strlen(src), k;
	if (dst == vg_alloc_ptr) {
		__CPROVER_assert(d + n + 1 <= vg_alloc_size, "C08 strcat: the result fits the size malloc was asked for");
	}
	for (k = 0; k <= n; k++) dst[d + k] = src[k];
	return dst;
}
static char *vg_strdup(const char *src)
{
	size_t n = strlen(src), k; char *p;
	__CPROVER_assert(n + 1 <= VG_ALLOC, "strdup stand-in: capacity suffices");
#ifndef VG_ALLOW_SLASHES
	/* ASSUME (exclusion, reported): the path handed to make_parent_directories contains a character other
	   than '/'.  For "" or "///" the function computes path - 1 (p = path + strlen(path) - 1, and --p in the
	   strip loop): undefined pointer arithmetic, on which CBMC's pointer order then lets *p be read and the
	   strip loop run away.  Real machines compare false and skip the loop; nothing is printed in that case.
	   Group print.make_parent_directories@slashes runs without this exclusion and shows the finding. */
	{
		_Bool other = 0;
		for (k = 0; k < n; k++) if (src[k] != '/') other = 1;
		__CPROVER_assume(other);
	}
#endif
	if (nondet_bool()) return NULL;
	p = malloc(VG_ALLOC);
	__CPROVER_assume(p != NULL);
	for (k = 0; k <= n; k++) p[k] = src[k];
	return p;
}
#define malloc vg_malloc
#define strcat vg_strcat
#undef strdup
#define strdup vg_strdup

#include "src/extract.c"
#undef malloc
#undef strcat
#undef strdup

static void vg_begin(void) { vg_quiet = 0; vg_sunk = 0; vg_raw_sunk = 0; vg_safe_sunk = 0; vg_members = 0; vg_chunks = 0; vg_chars = 0; vg_lines = 0; vg_any_options(); }
#define VG_END(name) do { __CPROVER_assert(vg_raw_sunk == 0 && vg_quiet == 0, "C18 " name ": the raw (file data) sink is not used"); VG_CANARY(name); } while (0)

/* a file name as file_full_path can return it: any bytes, up to 3 * VG_S + 1 */
#ifndef VG_NAME_MAX
#define VG_NAME_MAX (3 * VG_S + 1)
#endif
char vg_name[VG_NAME_MAX + 1];
static char *vg_any_name(void) { __CPROVER_havoc_object(vg_name); vg_name[VG_NAME_MAX] = 0; return vg_name; }
/* a status / operation text: the callers pass program literals ("Tested", "CRC error", "Melted", "Failure",
   "Testing  :", "Melting  :") - any printable string of at most 10 characters */
char vg_status[11];
static char *vg_any_status(void)
{
	unsigned k;
	__CPROVER_havoc_object(vg_status); vg_status[10] = 0;
	for (k = 0; k < 10; k++) __CPROVER_assume(vg_status[k] == 0 || VG_PRINTABLE_BYTE(vg_status[k]));
	return vg_status;
}
ProgressCallbackData vg_progress;
static ProgressCallbackData *vg_any_progress(void)
{
	__CPROVER_havoc_object(&vg_progress);
	vg_progress.header = vg_any_header();
	vg_progress.options = &vg_options;
	vg_progress.filename = vg_any_name();
	vg_progress.operation = vg_any_status();
	return &vg_progress;
}

/* ---- the printed file name: a fresh NUL-terminated string (C08), never longer than its parts */
void h_file_full_path(void)
{
	LHAFileHeader *h; char *r; size_t k;
	vg_begin(); h = vg_any_header();
	r = file_full_path(h, &vg_options);
	for (k = 0; r[k] != 0; k++) { }
	__CPROVER_assert(r == vg_alloc_ptr && k + 1 <= vg_alloc_size && k <= VG_NAME_MAX,
	                 "file_full_path: result is a NUL-terminated string inside the block that was asked for");
	free(r);
	VG_END("file_full_path");
}
void h_print_filename(void) { char *n, *s; vg_begin(); n = vg_any_name(); s = vg_any_status(); print_filename(n, s); VG_END("print_filename"); }
void h_print_filename_brief(void) { char *n; vg_begin(); n = vg_any_name(); print_filename_brief(n); VG_END("print_filename_brief"); }
void h_progress_callback(void)
{
	unsigned block = nondet_uint(), num_blocks = nondet_uint(); ProgressCallbackData *p;
	vg_begin(); p = vg_any_progress();
	progress_callback(block, num_blocks, p);
	__CPROVER_assert(vg_progress.invoked == 1, "progress_callback records the invocation");
	VG_END("progress_callback");
}
void h_print_symlink_line(void)
{
	char *s, *d; LHAFileHeader *h;
	vg_begin(); s = vg_any_name(); h = vg_any_header(); d = vg_target;
	print_symlink_line(s, d);
	VG_END("print_symlink_line");
}
void h_test_archived_file_crc(void)
{
	LHAFileHeader *h; vg_begin(); h = vg_any_header();
	(void) test_archived_file_crc(vg_reader, h, &vg_options);
	VG_END("test_archived_file_crc");
}
void h_check_parent_directory(void) { char *n; vg_begin(); n = vg_any_name(); (void) check_parent_directory(n); VG_END("check_parent_directory"); }
void h_make_parent_directories(void) { char *n; vg_begin(); n = vg_any_name(); (void) make_parent_directories(n); VG_END("make_parent_directories"); }
void h_prompt_user(void) { char *m; vg_begin(); m = vg_any_status(); (void) prompt_user(m); VG_END("prompt_user"); }
void h_confirm_file_overwrite(void) { char *n; vg_begin(); n = vg_any_name(); (void) confirm_file_overwrite(n, &vg_options); VG_END("confirm_file_overwrite"); }
void h_file_exists(void) { char *n; vg_begin(); n = vg_any_name(); (void) file_exists(n); VG_END("file_exists"); }
void h_extract_archived_file(void)
{
	LHAFileHeader *h; vg_begin(); h = vg_any_header();
	(void) extract_archived_file(vg_reader, h, &vg_options);
	VG_END("extract_archived_file");
}
void h_test_file_crc(void) { vg_begin(); (void) test_file_crc(&vg_filter, &vg_options); VG_END("test_file_crc"); }
void h_extract_archive_dry_run(void) { vg_begin(); (void) extract_archive_dry_run(&vg_filter, &vg_options); VG_END("extract_archive_dry_run"); }
void h_extract_archive(void) { vg_begin(); (void) extract_archive(&vg_filter, &vg_options); VG_END("extract_archive"); }
/* the two functions that may use the raw sink: only for file DATA (buf filled by lha_reader_read), and the
   header lines around it still go through the checking sinks */
void h_print_archived_file(void)
{
	vg_begin();
	(void) print_archived_file(vg_reader);
	__CPROVER_assert(vg_sunk == 0 && vg_safe_sunk == 0 && vg_quiet == 0, "print_archived_file writes file data only");
	VG_CANARY("print_archived_file");
}
void h_print_archive(void)
{
	vg_begin();
	(void) print_archive(&vg_filter, &vg_options);
	__CPROVER_assert(vg_quiet == 0, "C18 print_archive: sink discipline restored");
	VG_CANARY("print_archive");
}

/* Unit print, bounded companion of h_print_safe.c (C18): the UNMODIFIED text of src/safe.c (no woven contract, no loop
   anchors), loops unwound, formatting results of at most VG_B-1 bytes with ANY content.  Whatever safe_printf /
   safe_fprintf hand to a libc output function must be printable ASCII -- however the file is organised internally
   (helper functions, stack buffers, different libc output calls).  Sinks walk each string to its NUL. */
#define VG_REAL_SAFE 1
#define VG_B 10
#include "vg_print.h"
#include "lib/lha_arch.h"
#include <string.h>

/* arbitrary formatting result: length < VG_B, any bytes */
static size_t vg_fill(unsigned char *b, size_t cap)
{
	size_t k, len = nondet_size_t();
	__CPROVER_assume(len < VG_B && len < cap);
	for (k = 0; k < VG_B; k++) if (k < len) { b[k] = nondet_uchar(); __CPROVER_assume(b[k] != 0); }
	b[len] = 0;
	return len;
}
/* ASSUME: lha_arch_vasprintf / vasprintf: fails (result NULL) or stores a fresh heap string; content unconstrained. */
int lha_arch_vasprintf(char **result, char *fmt, va_list args)
{
	unsigned char *b;
	(void) fmt; (void) args;
	if (nondet_bool()) { *result = NULL; return -1; }
	b = malloc(VG_B);
	__CPROVER_assume(b != NULL);
	*result = (char *) b;
	return (int) vg_fill(b, VG_B);
}
/* ASSUME: vsnprintf / vsprintf: write a NUL-terminated string of fewer than n bytes into s (content unconstrained); the return value
   is the length the complete result would have, which may be larger than what fitted (C99). */
int vsnprintf(char *s, size_t n, const char *fmt, va_list ap)
{
	int r = nondet_int();
	size_t w = 0;
	(void) fmt; (void) ap;
	if (n > 0) w = vg_fill((unsigned char *) s, n);
	__CPROVER_assume(r >= -1 && (r < 0 || (size_t) r >= w) && (r < 0 || (size_t) r < n || w + 1 == n || w + 1 == VG_B));
	return r;
}
int vsprintf(char *s, const char *fmt, va_list ap) { (void) fmt; (void) ap; return (int) vg_fill((unsigned char *) s, VG_B); }

#include "src/safe.c"

void h_safe_printf_bounded(void)
{
	char *fmt; char *a1; int a2;
	vg_sunk = 0;
	(void) safe_printf(fmt, a1, a2);
	__CPROVER_assert(vg_sunk >= 1, "safe_printf hands its result to an output function");
	VG_CANARY("safe_printf_bounded");
}
void h_safe_fprintf_bounded(void)
{
	FILE *stream; char *fmt; char *a1; int a2;
	vg_sunk = 0;
	(void) safe_fprintf(stream, fmt, a1, a2);
	__CPROVER_assert(vg_sunk >= 1, "safe_fprintf hands its result to an output function");
	VG_CANARY("safe_fprintf_bounded");
}

/* Unit print, part 1: src/safe.c (safe_output, safe_printf, safe_fprintf) -- C18.
   Legacy route (safe_output's loop variable is a pointer): preconditions are harness assumes,
   postconditions harness asserts + the sink stub's PRINTABLE obligation; loop contract woven from
   contracts/src/safe.c.spec. */
#define VG_REAL_SAFE 1
#define VG_SINK_WITNESS 1
#include "vg_print.h"
#include "lib/lha_arch.h"

unsigned char vg_buf[VG_B];
unsigned char *vg_vas_buf;    /* what the vasprintf stand-in handed out */
int vg_vas_ret;

/* ASSUME: lha_arch_vasprintf (vasprintf) either fails, leaving *result NULL as the callers in safe.c
   test for (glibc leaves it undefined; lha_arch_unix.c passes that through - outside C18), or stores a
   fresh heap string in *result.  Nothing is assumed about the CONTENT: any bytes, any length < VG_B
   (VG_B is the ghost object size, the proof does not depend on it), so safe_printf/safe_fprintf are
   proved for every formatting result of every format and argument list. */
int lha_arch_vasprintf(char **result, char *fmt, va_list args)
{
	unsigned char *b;
	(void) fmt; (void) args;
	if (nondet_bool()) { *result = NULL; return -1; }
	b = malloc(VG_B);
	__CPROVER_assume(b != NULL);
	__CPROVER_havoc_object(b);
	vg_len = nondet_size_t();
	__CPROVER_assume(vg_len < VG_B && b[vg_len] == 0);
	__CPROVER_assume(__CPROVER_forall { size_t vi_; (vi_ < VG_B) ==> (vi_ < vg_len ==> b[vi_] != 0) });
	vg_k = nondet_size_t();
	__CPROVER_assume(vg_k < VG_B);
	vg_old = b[vg_k];
	vg_vas_buf = b;
	vg_vas_ret = nondet_int();
	*result = (char *) b;
	return vg_vas_ret;
}

#include "src/safe.c"

/* safe_output(stream, str)
   requires: str is a NUL-terminated string (first NUL at vg_len) in a writable object
   ensures : exactly one string is handed to libc, it is str itself, NUL-terminated at the same length,
             every byte of it is 0x20..0x7E (sink obligations), and it is the input with every
             non-printable byte replaced by '?' and every other byte unchanged (tracked position vg_k). */
void h_safe_output(void)
{
	FILE *stream;
	__CPROVER_havoc_object(vg_buf);
	vg_len = nondet_size_t();
	__CPROVER_assume(vg_len < VG_B && vg_buf[vg_len] == 0);
	__CPROVER_assume(__CPROVER_forall { size_t vi_; (vi_ < VG_B) ==> (vi_ < vg_len ==> vg_buf[vi_] != 0) });
	vg_k = nondet_size_t();
	__CPROVER_assume(vg_k < VG_B);
	vg_old = vg_buf[vg_k];
	vg_sunk = 0; vg_n = nondet_size_t();
	safe_output(stream, vg_buf);
	__CPROVER_assert(vg_sunk == 1, "C18 safe_output: the string is handed to libc exactly once");
	__CPROVER_assert(vg_n == vg_len, "C18 safe_output: the printed string has the length of the input (nothing dropped or added)");
	__CPROVER_assert(vg_buf[vg_k] == (vg_k < vg_len ? VG_SAN(vg_old) : vg_old),
	                 "C18 safe_output: printable bytes are kept, all others become '?', nothing beyond the terminator changes");
	VG_CANARY("safe_output");
}

/* safe_printf(format, ...): for ANY result of the formatting step, what reaches the stream went through
   safe_output (same three obligations, on the heap string), the string is freed, the formatter's
   return value is passed through. */
void h_safe_printf(void)
{
	char *fmt; char *a1; int a2; int r;
	vg_sunk = 0; vg_vas_buf = NULL; vg_n = nondet_size_t();
	r = safe_printf(fmt, a1, a2);
	__CPROVER_assert(vg_vas_buf != NULL, "safe_printf returns only if formatting succeeded");
	__CPROVER_assert(vg_sunk == 1 && vg_n == vg_len, "C18 safe_printf: the whole formatted string is printed once, through safe_output");
	__CPROVER_assert(r == vg_vas_ret, "safe_printf returns the formatter's result");
	VG_CANARY("safe_printf");
}

void h_safe_fprintf(void)
{
	FILE *stream; char *fmt; char *a1; int a2; int r;
	vg_sunk = 0; vg_vas_buf = NULL; vg_n = nondet_size_t();
	r = safe_fprintf(stream, fmt, a1, a2);
	__CPROVER_assert(vg_vas_buf != NULL, "safe_fprintf returns only if formatting succeeded");
	__CPROVER_assert(vg_sunk == 1 && vg_n == vg_len, "C18 safe_fprintf: the whole formatted string is printed once, through safe_output");
	__CPROVER_assert(r == vg_vas_ret, "safe_fprintf returns the formatter's result");
	VG_CANARY("safe_fprintf");
}

/* C01 step 4 (bounded): canonical prefix-code construction and decoding on the REAL, unwoven code:
   build_tree + expand_queue + add_codes_with_length + read_from_tree + the bit reader, as instantiated for the
   lh_new family (TreeElement = uint16_t).  For EVERY complete (Kraft-exact) assignment of code lengths
   0..VG_CL to VG_CN symbols and an arbitrary used symbol s: the canonical code of s (LHA make_table numbering:
   shorter codes first, equal lengths in symbol order, bit 0 = first child), followed by arbitrary bits, decodes
   to s and consumes exactly len[s] bits.  The bound is the alphabet size / maximum length. */
#include "vg_common.h"
#include "lib/lha_decoder.h"
#ifndef VG_CN
#define VG_CN 8
#endif
#ifndef VG_CL
#define VG_CL 5
#endif
uint8_t vg_in_b[4];
static size_t vg_rpos;
/* ASSUME: input callback delivers the stream bytes in order (any chunking) */
size_t vg_cb(void *buf, size_t buf_len, void *user)
{
	uint8_t *p = buf; size_t n = 4 - vg_rpos, k;
	if (n > buf_len) n = buf_len;
	for (k = 0; k < 4; k++) if (k < n) p[k] = vg_in_b[vg_rpos + k];
	vg_rpos += n;
	return n;
}
#include "lib/lh5_decoder.c"

void h_canon(void)
{
	uint8_t len[VG_CN];
	TreeElement tree[2 * VG_CN];
	BitStreamReader r;
	unsigned count[VG_CL + 2], next[VG_CL + 2], code, s, k, l, kraft = 0, used = 0, rank = 0;
	uint32_t stream;
	int got;
#ifdef VG_SHAPE_CHAIN
	/* concrete extreme shape: maximum-length codes: lengths 1, 2, ..., VG_CL-1, VG_CL, VG_CL (VG_CN == VG_CL + 1 symbols) */
	for (k = 0; k < VG_CN; k++) len[k] = (uint8_t) (k + 1 < VG_CL ? k + 1 : VG_CL);
#elif defined(VG_SHAPE_FLAT256)
	/* concrete extreme shape: one whole level of the tree: 256 symbols of equal length 8 (VG_CN == 256, VG_CL == 8) */
	for (k = 0; k < VG_CN; k++) len[k] = 8;
#elif defined(VG_SHAPE_FLAT256P2)
	/* concrete extreme shape: 256 symbols of length 9 preceded by two 2-bit codes (VG_CN == 258, VG_CL == 9) */
	for (k = 0; k < VG_CN; k++) len[k] = (uint8_t) (k < 2 ? 2 : 9);
#else
	for (k = 0; k < VG_CN; k++) { len[k] = nondet_uchar(); __CPROVER_assume(len[k] <= VG_CL); }
#endif
	for (l = 0; l <= VG_CL + 1; l++) count[l] = 0;
	for (k = 0; k < VG_CN; k++) { if (len[k] > 0) { count[len[k]]++; kraft += 1u << (VG_CL - len[k]); used++; } }
	__CPROVER_assume(kraft == (1u << VG_CL) && used >= 2);            /* complete prefix code */
	next[1] = 0;
	for (l = 1; l <= VG_CL; l++) next[l + 1] = (next[l] + count[l]) << 1;
	s = nondet_uint();
	__CPROVER_assume(s < VG_CN && len[s] > 0);
#if defined(VG_SHAPE_FLAT256) || defined(VG_SHAPE_FLAT256P2)
	/* the 256-symbol shapes are run for the first, the third, the middle and the last symbol only (a symbolic choice among
	   all of them over a 512-entry tree does not finish): everything but that choice and the trailing bits is concrete */
	__CPROVER_assume(s == 0 || s == 2 || s == VG_CN / 2 || s == VG_CN - 1);
#endif
	for (k = 0; k < VG_CN; k++) if (k < s && len[k] == len[s]) rank++;
	code = next[len[s]] + rank;                                       /* canonical code of s, len[s] bits */
	/* stream = code bits MSB first, then arbitrary bits */
	stream = nondet_uint();
	stream = (code << (32 - len[s])) | (stream & ((1u << (32 - len[s])) - 1u));
	vg_in_b[0] = (uint8_t) (stream >> 24); vg_in_b[1] = (uint8_t) (stream >> 16); vg_in_b[2] = (uint8_t) (stream >> 8); vg_in_b[3] = (uint8_t) stream;
	vg_rpos = 0;
	init_tree(tree, 2 * VG_CN);
	build_tree(tree, 2 * VG_CN, len, VG_CN);
	bit_stream_reader_init(&r, vg_cb, NULL);
	got = read_from_tree(&r, tree);
	__CPROVER_assert(got == (int) s, "C01 canonical code: the canonical code of symbol s decodes to s");
	__CPROVER_assert(8 * vg_rpos - r.bits == len[s], "C01 canonical code: exactly len[s] bits are consumed");
	VG_CANARY("canon");
}

/* Unit: lib/null_decoder.c (stored methods). */
#include "vg_common.h"
#include "lib/lha_decoder.h"

#define VG_IN_MAX 4096
uint8_t vg_in[VG_IN_MAX];      /* ghost: the compressed input byte stream */
size_t vg_in_pos;              /* ghost: bytes of it handed out so far */
size_t vg_K;                   /* Skolem index of one delivered byte (assumed < 1024 in the harness) */

/* ASSUME: LHADecoderCallback contract for block reads: returns n <= buf_len, writes exactly buf[0..n) with the
   next n input bytes (tracked at the Skolem cell vg_K; the rest of the destination object is left arbitrary,
   which is weaker than the real callback and therefore sound), advances the input by n. */
size_t vg_cb_block(void *buf, size_t buf_len, void *user_data)
{
	size_t n = nondet_size_t();
	__CPROVER_assume(n <= buf_len);
	__CPROVER_assert(__CPROVER_w_ok(buf, buf_len), "callback buffer is writable for the requested length");
	__CPROVER_havoc_object(buf);
	if (vg_K < n) {
		((uint8_t *) buf)[vg_K] = vg_in[vg_in_pos + vg_K];
	}
	vg_in_pos += n;
	return n;
}
size_t (*const vg_cb_block_ptr)(void *, size_t, void *) = vg_cb_block;

#include "lib/null_decoder.c"

static void vg_havoc(void)
{
	__CPROVER_havoc_object(&vg_dec);
	__CPROVER_havoc_object(vg_out);
	__CPROVER_havoc_object(vg_in);
	vg_in_pos = nondet_size_t();
	vg_K = nondet_size_t();
	__CPROVER_assume(vg_K < BLOCK_READ_SIZE);
}
void h_init(void) { void *d; LHADecoderCallback cb; void *cbd; vg_havoc(); lha_null_init(d, cb, cbd); VG_CANARY("lha_null_init"); }
/* lha_null_read is loop-free: its contract is checked around the real call (complete) */
void h_read(void)
{
	size_t r, p0;
	vg_havoc();
	__CPROVER_assume(vg_dec.callback == vg_cb_block);
	__CPROVER_assume(vg_in_pos <= VG_IN_MAX - BLOCK_READ_SIZE);
	p0 = vg_in_pos;
	r = lha_null_read(&vg_dec, vg_out);
	__CPROVER_assert(r <= BLOCK_READ_SIZE, "C09: null read returns at most max_read bytes");
	__CPROVER_assert(r == vg_in_pos - p0, "C03: stored method returns exactly as many bytes as the input delivered");
	__CPROVER_assert(vg_K < r ==> vg_out[vg_K] == vg_in[p0 + vg_K], "C03: stored method delivers the input bytes unchanged, in order");
	VG_CANARY("lha_null_read");
}
void h_dtype(void)
{
	__CPROVER_assert(lha_null_decoder.init == lha_null_init && lha_null_decoder.read == lha_null_read && lha_null_decoder.free == NULL,
	                 "decoder type uses the functions under contract");
	__CPROVER_assert(lha_null_decoder.extra_size == sizeof(LHANullDecoder), "extra_size is the state struct");
	__CPROVER_assert(lha_null_decoder.max_read == BLOCK_READ_SIZE, "max_read is the block the callback is asked for");
	__CPROVER_assert(lha_null_decoder.block_size > 0, "block_size positive");
	VG_CANARY("dtype");
}

/* Unit breader: lib/lha_basic_reader.c under contract (C08, C13, C15, C20).

   The input stream, the header parser and the decoder factory are other units; here they are stubs
   whose behaviour mirrors what those units prove (ASSUME comments).  Ghost stream model = the logical
   view that unit istream proves for lha_input_stream_read / _skip:
     vg_pos   logical position of the stream (istream: vg_cur - leadin_len)
     vg_ll    bytes still held in the stream's 24-byte lead-in buffer (istream: leadin_len)
     vg_P, vg_src0   Skolem cell: the source byte at the arbitrary-but-fixed absolute position vg_P
   Ghost member model: vg_member_end = absolute position of the first byte after the current member's
   compressed data (set when a header is parsed: position after the header + its compressed_length). */
#include "vg_common.h"
#include <stdio.h>
#include "lib/lha_basic_reader.h"

#define VG_POS_MAX ((size_t) 1 << 62)
#ifndef VG_FREE_HAS
#define VG_FREE_HAS 0     /* lha_basic_reader_free groups: does the reader hold a header? */
#endif

size_t vg_pos, vg_P, vg_member_end;
uint8_t vg_src0;
unsigned vg_ll;

/* observers */
unsigned vg_naccess;      /* calls that reached the input stream (read or skip) */
unsigned vg_nparse;       /* headers parsed (lha_file_header_read calls) */
size_t vg_parse_pos;      /* logical position at which the last header parse started */
unsigned vg_nskip;        /* lha_input_stream_skip calls */
size_t vg_skip_arg;       /* byte count of the last skip */
int vg_skip_ok;           /* result of the last skip */
unsigned vg_frees;        /* lha_file_header_free calls */
_Bool vg_hdr_live;        /* the reader's reference to vg_hdr is live */
unsigned vg_nnew;         /* lha_decoder_new calls */
LHADecoderCallback vg_new_cb;
void *vg_new_data;
size_t vg_new_len;

char vg_stream_obj;
#define VG_STREAM ((LHAInputStream *) &vg_stream_obj)
LHAFileHeader vg_hdr;                 /* the one header the basic reader can hold at a time */
static LHADecoderType vg_dtype;
char vg_decoder_obj;
#define VG_DECODER ((LHADecoder *) &vg_decoder_obj)

#define VG_STR5(s, a, b, c, d, e) ((s)[0] == (a) && (s)[1] == (b) && (s)[2] == (c) && (s)[3] == (d) && (s)[4] == (e) && (s)[5] == 0)
#define VG_IS_LHD(s) VG_STR5(s, '-', 'l', 'h', 'd', '-')
/* the methods lib/lha_decoder.c has a decoder for */
#define VG_KNOWN(s) \
	(VG_STR5(s,'-','l','z','4','-') || VG_STR5(s,'-','l','z','5','-') || VG_STR5(s,'-','l','z','s','-') || VG_STR5(s,'-','l','h','0','-') || \
	 VG_STR5(s,'-','l','h','1','-') || VG_STR5(s,'-','l','h','4','-') || VG_STR5(s,'-','l','h','5','-') || VG_STR5(s,'-','l','h','6','-') || \
	 VG_STR5(s,'-','l','h','7','-') || VG_STR5(s,'-','l','h','x','-') || VG_STR5(s,'-','l','k','7','-') || VG_STR5(s,'-','p','m','0','-') || \
	 VG_STR5(s,'-','p','m','1','-') || VG_STR5(s,'-','p','m','2','-'))

/* ASSUME: lha_input_stream_read (proved in unit istream, groups istream.lha_input_stream_read@small/@big):
   takes `taken` <= buf_len bytes from the logical position, stores them in buf[0..taken) (buf[p - pos] is the
   source byte at position p), advances the logical position by taken, drains the lead-in buffer first,
   returns 1 iff taken == buf_len, writes nothing outside buf[0..buf_len).
   Model: the object holding buf is made arbitrary except for the Skolem cell (over-approximation). */
int lha_input_stream_read(LHAInputStream *stream, void *buf, size_t buf_len)
{
	size_t taken = nondet_size_t();
	uint8_t *b = (uint8_t *) buf;
	size_t rel = vg_P - vg_pos;
	__CPROVER_assert(stream == VG_STREAM, "reads go to the reader's stream");
	__CPROVER_assert(__CPROVER_w_ok(buf, buf_len), "stream read is given a writable buffer of buf_len bytes");
	vg_naccess++;
	if (nondet_bool()) {
		return 0;       /* stream in its failed state (no self-extractor scan result): nothing happens */
	}
	__CPROVER_assume(taken <= buf_len && vg_pos + taken <= VG_POS_MAX);
	if (buf_len > 0) {
		__CPROVER_havoc_object(buf);
		if (rel < taken) b[rel] = vg_src0;
	}
	vg_pos += taken;
	vg_ll = (taken >= vg_ll) ? 0 : vg_ll - (unsigned) taken;
	return taken == buf_len;
}

/* ASSUME: lha_input_stream_skip (proved in unit istream, groups istream.lha_input_stream_skip@cb/@rd and
   istream.file_source_skip*): returns 0 or 1; 1 means exactly `bytes` source bytes were consumed, which
   advances the logical position by exactly `bytes` PROVIDED the lead-in buffer is empty (the function
   ignores the lead-in buffer) -- checked here as an obligation on the caller. */
int lha_input_stream_skip(LHAInputStream *stream, size_t bytes)
{
	size_t adv = nondet_size_t();
	__CPROVER_assert(stream == VG_STREAM, "skips go to the reader's stream");
	__CPROVER_assert(vg_ll == 0, "skip is only called with an empty lead-in buffer");
	vg_naccess++;
	vg_nskip++;
	vg_skip_arg = bytes;
	vg_skip_ok = nondet_bool() ? 1 : 0;
	__CPROVER_assume(adv <= bytes && vg_pos + adv <= VG_POS_MAX);
	if (vg_skip_ok) {
		__CPROVER_assume(adv == bytes);
	}
	vg_pos += adv;
	return vg_skip_ok;
}

/* ASSUME: lha_file_header_read (unit filehdr): returns NULL (no further valid header; any number of bytes
   may have been consumed) or a header holding one reference for the caller, with compress_method
   NUL-terminated at [5] and compressed_length <= 2^32-1 = the number of compressed data bytes that follow
   at the position where the call returns.  A successful call has consumed at least 24 bytes through
   lha_input_stream_read (minimum header sizes: level 0: 24, level 1: 27, level 2: 26, level 3: 32), so the
   stream's 24-byte lead-in buffer is empty afterwards.  The caller holds no other live header. */
LHAFileHeader *lha_file_header_read(LHAInputStream *stream)
{
	size_t used = nondet_size_t();
	__CPROVER_assert(stream == VG_STREAM, "headers are parsed from the reader's stream");
	__CPROVER_assert(!vg_hdr_live, "previous header released before the next one is obtained");
	vg_naccess++;
	vg_nparse++;
	vg_parse_pos = vg_pos;
	__CPROVER_assume(used <= VG_POS_MAX && vg_pos + used <= VG_POS_MAX);
	vg_pos += used;
	if (nondet_bool()) {
		vg_ll = (used >= vg_ll) ? 0 : vg_ll - (unsigned) used;
		return NULL;
	}
	__CPROVER_assume(used >= 24);
	vg_ll = 0;
	__CPROVER_havoc_object(&vg_hdr);
	__CPROVER_assume(vg_hdr._refcount == 1 && vg_hdr.compress_method[5] == 0 && vg_hdr.compressed_length <= 0xffffffffu);
	__CPROVER_assume(vg_pos + vg_hdr.compressed_length <= VG_POS_MAX);
	vg_member_end = vg_pos + vg_hdr.compressed_length;
	vg_hdr_live = 1;
	return &vg_hdr;
}

/* ASSUME: lha_file_header_free (unit filehdr) drops one reference; the basic reader holds exactly one. */
void lha_file_header_free(LHAFileHeader *header)
{
	__CPROVER_assert(header == &vg_hdr && vg_hdr_live, "header reference released exactly once");
	vg_hdr_live = 0;
	vg_frees++;
}

/* ASSUME: lha_decoder_for_name (lib/lha_decoder.c, decoders[] table) returns a decoder type exactly for the
   14 method names in the table; "-lhd-" (directory) and unknown names give NULL. */
LHADecoderType *lha_decoder_for_name(char *name)
{
	__CPROVER_assert(__CPROVER_r_ok(name, 6), "method name is a readable 6-byte field");
	return VG_KNOWN(name) ? &vg_dtype : NULL;
}

/* ASSUME: lha_decoder_new (lib/lha_decoder.c) returns NULL or a decoder that will call
   callback(buf, n, callback_data) for input; recorded in vg_new_*. */
LHADecoder *lha_decoder_new(LHADecoderType *dtype, LHADecoderCallback callback, void *callback_data, size_t stream_length)
{
	__CPROVER_assert(dtype == &vg_dtype, "decoder created for the type that lha_decoder_for_name returned");
	vg_nnew++;
	vg_new_cb = callback;
	vg_new_data = callback_data;
	vg_new_len = stream_length;
	return nondet_bool() ? VG_DECODER : NULL;
}

/* Representation invariant of the pinned reader vg_rd (see contracts/lib/lha_basic_reader.c.spec) */
#define VG_HAS_FILE (vg_rd.curr_file != NULL)
#define READER_OK \
	((vg_rd.eof == 0 || vg_rd.eof == 1) && vg_pos <= VG_POS_MAX && vg_ll <= 24 && (vg_hdr_live == VG_HAS_FILE) && \
	 (vg_hdr_live ==> (vg_hdr.compress_method[5] == 0 && vg_ll == 0)) && \
	 ((!vg_hdr_live && vg_rd.eof == 0) ==> vg_rd.curr_file_remaining == 0) && \
	 ((vg_hdr_live && vg_rd.eof == 0) ==> (vg_member_end <= VG_POS_MAX && vg_pos <= vg_member_end && \
	                                       vg_member_end - vg_pos == vg_rd.curr_file_remaining)))
/* Skolem cell delivered into b: b[p - from] is the source byte at p, for from <= p < from + n */
#define VG_DELIVERED0(b, from, n) (((size_t) (vg_P - (from)) < (size_t) (n)) ==> (b)[(size_t) (vg_P - (from))] == vg_src0)

#include "lib/lha_basic_reader.c"

static void vg_havoc(void)
{
	__CPROVER_havoc_object(&vg_rd);
	__CPROVER_havoc_object(&vg_hdr);
	vg_pos = nondet_size_t(); vg_P = nondet_size_t(); vg_member_end = nondet_size_t(); vg_src0 = nondet_uchar();
	vg_ll = nondet_uint(); vg_naccess = nondet_uint(); vg_nparse = nondet_uint(); vg_parse_pos = nondet_size_t();
	vg_nskip = nondet_uint(); vg_skip_arg = nondet_size_t(); vg_skip_ok = nondet_int(); vg_frees = nondet_uint();
	vg_hdr_live = nondet_bool(); vg_nnew = nondet_uint(); vg_new_len = nondet_size_t();
	vg_new_cb = NULL; vg_new_data = NULL;
	__CPROVER_assume(vg_naccess < 1000000 && vg_nparse < 1000000 && vg_nskip < 1000000 && vg_frees < 1000000 && vg_nnew < 1000000);
	/* pointers of the arena are assigned (CBMC resolves dereferences through value sets) */
	vg_rd.stream = VG_STREAM;
	vg_rd.curr_file = vg_hdr_live ? &vg_hdr : NULL;
}

void h_new(void) { LHAInputStream *s; vg_havoc(); lha_basic_reader_new(s); VG_CANARY("lha_basic_reader_new"); }
void h_free(void) { LHABasicReader *r; vg_havoc(); lha_basic_reader_free(r); VG_CANARY("lha_basic_reader_free"); }
void h_curr_file(void) { LHABasicReader *r; vg_havoc(); lha_basic_reader_curr_file(r); VG_CANARY("lha_basic_reader_curr_file"); }
void h_next_file(void) { LHABasicReader *r; vg_havoc(); lha_basic_reader_next_file(r); VG_CANARY("lha_basic_reader_next_file"); }
void h_read_compressed(void) { LHABasicReader *r; void *b; size_t n; vg_havoc(); lha_basic_reader_read_compressed(r, b, n); VG_CANARY("lha_basic_reader_read_compressed"); }
void h_decoder_callback(void) { void *b; size_t n; void *u; vg_havoc(); decoder_callback(b, n, u); VG_CANARY("decoder_callback"); }
void h_decode(void) { LHABasicReader *r; vg_havoc(); lha_basic_reader_decode(r); VG_CANARY("lha_basic_reader_decode"); }

/* Unit macbin: lib/macbinary.c -- the MacBinary pass-through decoder (C08 memory safety, C13 termination and
   bounded reads, C20 ownership).

   Arenas (declared by contracts/lib/macbinary.c.spec after the type definitions of macbinary.c):
     vg_mb    MacBinaryDecoder      the decoder's private state (what lha_decoder_new hands to init/read as extra_data)
     vg_out   uint8_t[4096]         the output buffer read() is given (max_read bytes, see group macbin.dtype)
     vg_clo   MacBinaryDecoderClosure
     vg_hdr   LHAFileHeader         the member's header; vg_hdr.filename == vg_fname, NUL at vg_fnlen
   The inner decoder vg_inner is opaque to macbinary.c; its stream position / declared length are the ghost
   counters vg_in_pos / vg_in_len (what lha_decoder_read's contract, proved in unit decoder, talks about). */
#include "vg_common.h"
#include <stddef.h>
#include "lib/lha_decoder.h"
#include "lha_file_header.h"

#define VG_FN 80                       /* size of the object holding header->filename (ghost size) */
LHADecoder vg_inner;
size_t vg_in_pos, vg_in_len;
unsigned vg_in_reads;                  /* number of inner reads so far */
int vg_in_eof;                         /* the last inner read returned 0 */
char vg_fname[VG_FN];
size_t vg_fnlen;                       /* strlen(vg_fname): position of its first NUL */
LHAFileHeader vg_hdr;
uint8_t vg_out[4096];                  /* == OUTPUT_BUFFER_SIZE == max_read, checked in h_dtype */
uint8_t vg_blk[128];                   /* == MBHDR_SIZE: a stand-alone header block (reads beyond it are pointer-check failures) */

/* file-format vocabulary, written from the field table at the top of macbinary.c (Z = must be zero,
   C = must match the .lzh header), independent of the code's control flow */
#define VG_BE32AT(d, o)   ((uint32_t) (16777216u * (d)[o] + 65536u * (d)[(o) + 1] + 256u * (d)[(o) + 2] + (d)[(o) + 3]))
#define VG_ZERO(d, a, b, v)  __CPROVER_forall { unsigned v; (v < 128) ==> ((v >= (a) && v < (b)) ==> (d)[v] == 0) }
#define VG_NAME_EQ(d, v)  __CPROVER_forall { unsigned v; (v < 63) ==> (v < vg_fnlen ==> (d)[2 + v] == (uint8_t) vg_fname[v]) }
#define VG_TDIFF(a, b)    ((a) > (b) ? (a) - (b) : (b) - (a))
/* T: a token making the bound variable names unique per use (all clauses of a contract share one scope) */
#define VG_IS_MACBINARY(d, T) ( \
	(d)[0x00] == 0 && (d)[0x4a] == 0 && (d)[0x52] == 0 && VG_ZERO(d, 0x63, 0x65, vz1_##T) && VG_ZERO(d, 0x65, 0x80, vz2_##T) && \
	(d)[0x01] <= 63 && (d)[0x01] == vg_fnlen && VG_NAME_EQ(d, vn_##T) && VG_ZERO(d, 2 + vg_fnlen, 0x41, vz3_##T) && \
	vg_hdr.length == (size_t) ((uint32_t) (VG_BE32AT(d, 0x53) + VG_BE32AT(d, 0x57) + 128u + 0x7fu) & ~0x7fu) && \
	VG_BE32AT(d, 0x5f) >= 2082844800u && \
	VG_TDIFF(vg_hdr.timestamp, (unsigned) (VG_BE32AT(d, 0x5f) - 2082844800u)) <= 14u * 60u * 60u)

/* representation invariant of the private state between init and the reads */
#define VG_MB_OK      (vg_mb.decoder == &vg_inner && (vg_mb.mb_header_bytes == 0 || vg_mb.mb_header_bytes == MBHDR_SIZE))
#define VG_HDR_OK     (vg_hdr.filename == vg_fname && vg_fnlen < VG_FN && vg_fname[vg_fnlen] == 0)
#define VG_INNER_OK   (vg_in_pos <= vg_in_len)

static size_t vg_strlen(const char *s);
static int vg_memcmp(const void *a, const void *b, size_t n);
static void *vg_memcpy(void *dst, const void *src, size_t n);
#define strlen vg_strlen
#define memcmp vg_memcmp
#define memcpy vg_memcpy
#include "lib/macbinary.c"
#undef strlen
#undef memcmp
#undef memcpy

/* ASSUME: strlen(s) is the position of the first NUL of s; s must be a NUL-terminated string.  The only string
   macbinary.c measures is header->filename, which is non-NULL for every header whose compression method has a
   decoder (lha_file_header_read rejects non-directory headers without a filename; "-lhd-" has no decoder entry,
   so open_decoder never reaches lha_macbinary_passthrough for directories). */
static size_t vg_strlen(const char *s)
{
	__CPROVER_assert(s == vg_fname, "C08 strlen: the argument is header->filename, a NUL-terminated string (not NULL)");
	return vg_fnlen;
}
/* ASSUME: memcmp(a, b, n) reads a[0..n) and b[0..n) and returns 0 exactly if they are equal. */
static int vg_memcmp(const void *a, const void *b, size_t n)
{
	int r = nondet_int();
	const uint8_t *x = a, *y = b;
	__CPROVER_assert(n <= 63, "memcmp stand-in: length within the modelled range");
	__CPROVER_assert(n == 0 || (__CPROVER_r_ok(a, n) && __CPROVER_r_ok(b, n)), "C08 memcmp: both ranges readable");
	__CPROVER_assume((r == 0) == __CPROVER_forall { unsigned vm_; (vm_ < 63) ==> (vm_ < n ==> x[vm_] == y[vm_]) });
	return r;
}
/* ASSUME: memcpy(dst, src, n) copies n bytes; ranges must be valid.  Contents are left arbitrary (the byte
   content of the output is not the subject of this unit). */
static void *vg_memcpy(void *dst, const void *src, size_t n)
{
	__CPROVER_assert(n == 0 || (__CPROVER_w_ok(dst, n) && __CPROVER_r_ok(src, n)), "C08 memcpy: destination writable and source readable for n bytes");
	__CPROVER_assert(__CPROVER_same_object(dst, vg_out) && VG_OFF(dst) + n <= OUTPUT_BUFFER_SIZE, "C09 memcpy: stays inside the max_read output buffer");
	__CPROVER_havoc_object(vg_out);
	return dst;
}
/* ASSUME: lha_decode_be_uint32 reads buf[0..4) and returns the big-endian value (group exthdr.lha_decode_be_uint32). */
uint32_t lha_decode_be_uint32(uint8_t *buf)
{
	__CPROVER_assert(__CPROVER_r_ok(buf, 4), "C08 lha_decode_be_uint32: four readable bytes");
	return VG_BE32AT(buf, 0);
}
/* ASSUME: lha_decoder_read contract (groups decoder.lha_decoder_read*): returns n <= buf_len and n <= declared
   length - stream position, writes only buf[0..n), advances the stream position by n.  vg_in_eof records that a
   non-empty request came back empty (end of the inner stream). */
size_t lha_decoder_read(LHADecoder *decoder, uint8_t *buf, size_t buf_len)
{
	size_t n = nondet_size_t();
	__CPROVER_assert(decoder == &vg_inner, "inner reads go to the inner decoder handed to the pass-through");
	__CPROVER_assert(buf_len == 0 || __CPROVER_w_ok(buf, buf_len), "C08 lha_decoder_read: destination writable for the length asked for");
	__CPROVER_assume(vg_in_pos <= vg_in_len);
	__CPROVER_assume(n <= buf_len && n <= vg_in_len - vg_in_pos);
#ifdef VG_HEAP_STATE
	/* the private state lives in the block the lha_decoder_new stand-in allocated; that stand-in fills the
	   extra area with arbitrary bytes up front (prophecy: the bytes the reads are going to deliver are already
	   there), so nothing is written here - the write's memory safety is the w_ok obligation above */
	__CPROVER_assert(buf_len <= MBHDR_SIZE, "inner read during init asks for at most the header size");
#else
	if (__CPROVER_same_object(buf, &vg_mb)) {
		__CPROVER_assert(VG_OFF(buf) >= offsetof(MacBinaryDecoder, mb_header) &&
		                 VG_OFF(buf) + buf_len <= offsetof(MacBinaryDecoder, mb_header) + MBHDR_SIZE,
		                 "C08 lha_decoder_read: a read into the private state stays inside mb_header[128]");
		__CPROVER_havoc_slice(vg_mb.mb_header, MBHDR_SIZE);
	} else if (__CPROVER_same_object(buf, vg_out)) {
		__CPROVER_assert(VG_OFF(buf) + buf_len <= OUTPUT_BUFFER_SIZE, "C09 lha_decoder_read: a read into the output buffer stays inside max_read bytes");
		__CPROVER_havoc_object(vg_out);
	} else {
		__CPROVER_havoc_object(buf);      /* a local scratch buffer of the caller */
	}
#endif
	vg_in_pos += n; vg_in_reads++; vg_in_eof = (n == 0 && buf_len > 0);
	return n;
}

static void vg_havoc(void)
{
	__CPROVER_havoc_object(&vg_mb);
	__CPROVER_havoc_object(vg_out);
	__CPROVER_havoc_object(&vg_clo);
	__CPROVER_havoc_object(&vg_hdr);
	__CPROVER_havoc_object(vg_fname);
	__CPROVER_havoc_object(vg_blk);
	__CPROVER_havoc_object(&vg_inner);
	vg_fnlen = nondet_size_t(); vg_in_pos = nondet_size_t(); vg_in_len = nondet_size_t();
	vg_in_reads = 0; vg_in_eof = nondet_bool();
}
/* harness-side part of VG_HDR_OK that needs a loop: no NUL before vg_fnlen (strlen semantics) */
static void vg_filename(void)
{
	size_t k;
	__CPROVER_assume(vg_fnlen < VG_FN);
	for (k = 0; k < VG_FN; k++) __CPROVER_assume(k < vg_fnlen ? vg_fname[k] != 0 : 1);
	vg_fname[vg_fnlen] = 0;
	vg_hdr.filename = vg_fname;
}

void h_block_is_zero(void)
{
	size_t off = nondet_size_t(), len = nondet_size_t();
	vg_havoc();
	__CPROVER_assume(off <= MBHDR_SIZE);
	block_is_zero(vg_blk + off, len);
	VG_CANARY("block_is_zero");
}
void h_check_modification_time(void) { unsigned t; LHAFileHeader *h; vg_havoc(); check_modification_time(t, h); VG_CANARY("check_modification_time"); }
void h_is_macbinary_header(void) { LHAFileHeader *h; vg_havoc(); vg_filename(); is_macbinary_header(vg_blk, h); VG_CANARY("is_macbinary_header"); }
void h_read_macbinary_header(void) { MacBinaryDecoder *d; LHAFileHeader *h; vg_havoc(); vg_filename(); read_macbinary_header(d, h); VG_CANARY("read_macbinary_header"); }
void h_init(void) { void *d; LHADecoderCallback cb; void *c; vg_havoc(); vg_filename(); macbinary_decoder_init(d, cb, c); VG_CANARY("macbinary_decoder_init"); }
void h_decode_to_end(void) { LHADecoder *d; vg_havoc(); decode_to_end(d); VG_CANARY("decode_to_end"); }
void h_read(void) { void *d; uint8_t *b; vg_havoc(); macbinary_decoder_read(d, b); VG_CANARY("macbinary_decoder_read"); }

/* the LHADecoderType initialiser ties the contracts to what lha_decoder_new allocates */
void h_dtype(void)
{
	__CPROVER_assert(macbinary_decoder_type.init == macbinary_decoder_init && macbinary_decoder_type.read == macbinary_decoder_read,
	                 "decoder type uses the functions under contract");
	__CPROVER_assert(macbinary_decoder_type.free == NULL, "C20: no free hook - the pass-through never releases the inner decoder (its owner does)");
	__CPROVER_assert(macbinary_decoder_type.extra_size == sizeof(MacBinaryDecoder), "C08: extra_size is the private state struct");
	__CPROVER_assert(macbinary_decoder_type.max_read == OUTPUT_BUFFER_SIZE && sizeof(vg_out) == OUTPUT_BUFFER_SIZE && sizeof(vg_blk) == MBHDR_SIZE,
	                 "C09: max_read is the bound macbinary_decoder_read is proved against (arena sizes equal the code's constants)");
	/* block_size is 0: lha_decoder_monitor / check_progress_callback would divide by it.  Recorded as a fact
	   here; group macbin.lha_macbinary_passthrough shows the decoder is created without a progress callback,
	   and lib/ calls lha_decoder_monitor only on the inner decoder (lha_reader.c open_decoder). */
	__CPROVER_assert(macbinary_decoder_type.block_size == 0, "fact: block_size is 0, so this decoder must never be monitored");
	VG_CANARY("dtype");
}

/* ---- lha_macbinary_passthrough: ownership on every path (C20), integration with lha_decoder_new (C08) ---- */
#ifdef VG_HEAP_STATE
unsigned vg_new_calls;
/* ASSUME: lha_decoder_new contract (group decoder.lha_decoder_new): one zeroed allocation of
   sizeof(LHADecoder) + extra_size + max_read bytes (NULL on allocation failure), fields initialised (no progress
   callback, position 0, given length), outbuf behind the extra area, dtype->init(extra area, callback,
   callback_data) called once; if init fails the block is freed and NULL returned. */
LHADecoder *lha_decoder_new(LHADecoderType *dtype, LHADecoderCallback callback, void *callback_data, size_t stream_length)
{
	LHADecoder *d;
	vg_new_calls++;
	d = calloc(1, sizeof(LHADecoder) + dtype->extra_size + dtype->max_read);
	if (d == NULL) return NULL;
	/* extra area: arbitrary instead of zero (weaker than calloc, and see lha_decoder_read above) */
	__CPROVER_havoc_slice(d + 1, sizeof(MacBinaryDecoder));
	d->dtype = dtype; d->progress_callback = NULL; d->last_block = (unsigned) -1;
	d->stream_length = stream_length;
	d->outbuf = (uint8_t *) (d + 1) + dtype->extra_size;
	if (dtype->init != NULL && !dtype->init(d + 1, callback, callback_data)) { free(d); return NULL; }
	return d;
}
void h_passthrough(void)
{
	LHADecoder *r; MacBinaryDecoder *m;
	vg_havoc(); vg_filename();
	vg_new_calls = 0;
	r = lha_macbinary_passthrough(&vg_inner, &vg_hdr);
	__CPROVER_assert(vg_new_calls == 1, "one decoder shell is created");
	if (r != NULL) {
		m = (MacBinaryDecoder *) (r + 1);
		__CPROVER_assert(r->dtype == &macbinary_decoder_type && r->stream_length == vg_hdr.length && r->progress_callback == NULL,
		                 "C13: the pass-through is limited to the declared length and is created unmonitored (block_size 0 is never divided by)");
		__CPROVER_assert(__CPROVER_OBJECT_SIZE(r) == sizeof(LHADecoder) + sizeof(MacBinaryDecoder) + OUTPUT_BUFFER_SIZE, "C08: shell + private state + max_read output buffer");
		__CPROVER_assert(m->decoder == &vg_inner && (m->mb_header_bytes == 0 || m->mb_header_bytes == MBHDR_SIZE), "private state satisfies the read contract's invariant");
		__CPROVER_assert(vg_hdr.length < MBHDR_SIZE ==> vg_in_reads == 0, "members shorter than a MacBinary header are not probed");
		free(r);     /* the owner (close_decoder) frees the shell; free hook is NULL */
	} else {
		__CPROVER_assert(1, "failure: NULL; with --memory-leak-check: nothing stays allocated");
	}
	/* vg_inner is a static object: any free() of it inside the code would be a pointer-check failure */
	VG_CANARY("lha_macbinary_passthrough");
}
#endif

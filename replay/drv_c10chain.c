/* Native scenario for the KNOWN FINDING C10 "safe link chained to a deferred dangerous link" (known_findings.json).
 * usage: drv_c10chain <path-to-lha-binary built from the tree under check> <empty work dir>
 * Archive (level-0 headers, Unix symlinks):
 *     d/ ;  bbbbbbbbbbbb -> ../canary (dangerous: deferred, placeholder) ;  bbbbbbbbbbbb -> d (safe: replaces the placeholder) ;
 *     a -> bbbbbbbbbbbb (safe) ;  a/file -> /nonexistent (dangerous: deferred)
 * At the end of extraction the deferred links are created longest path first: bbbbbbbbbbbb (12) before a/file (6); the
 * unlink+symlink of <root>/a/file then resolves through a -> bbbbbbbbbbbb -> ../canary and replaces <work>/canary/file,
 * an object OUTSIDE the extraction directory.  Ordering by path length only protects textual prefixes.
 * exit 0 = canary untouched, 1 = an object outside the extraction directory was modified, 2 = could not run.
 * (Written by an independent sub-agent while preparing a seeded change for C10; reproduced on the unchanged tree.) */

/*
 * Demonstration for property C10 ("extraction never touches anything
 * outside the extraction directory").
 *
 * usage: demo <path-to-lha-binary> <work-dir>
 *
 * Lays out
 *     <work>/root/          extraction directory (initially empty)
 *     <work>/canary/sub/    bystander directory, mode 0700, mtime 1000000000
 *     <work>/canary/file    bystander file
 * builds a four-entry level-0 archive
 *     1. directory   d/
 *     2. symlink     x -> ../canary        (dangerous: deferred, placeholder)
 *     3. symlink     x -> d                (safe: replaces the placeholder)
 *     4. directory   x/sub/  mode 0777, mtime 1234567890  (last entry, so it
 *                    is still on the directory stack at end of input)
 * runs `lha xw=<work>/root <work>/t.lzh` and then checks that nothing under
 * <work>/canary changed (mode, mtime, set of names, contents).
 *
 * Exit status: 0 = canary untouched (property holds on this input),
 *              1 = canary was modified (property violated),
 *              2 = demo could not be set up / run.
 */

#include <stdio.h>
#include <stdlib.h>
#include <string.h>
#include <stdint.h>
#include <errno.h>
#include <unistd.h>
#include <utime.h>
#include <dirent.h>
#include <sys/stat.h>
#include <sys/types.h>
#include <sys/wait.h>

#define CANARY_MTIME  1000000000
#define ARCHIVE_MTIME 1234567890

static void die(const char *what)
{
	fprintf(stderr, "demo: %s: %s\n", what, strerror(errno));
	exit(2);
}

static void put16(uint8_t *p, unsigned v)
{
	p[0] = v & 0xff;
	p[1] = (v >> 8) & 0xff;
}

static void put32(uint8_t *p, unsigned long v)
{
	p[0] = v & 0xff;
	p[1] = (v >> 8) & 0xff;
	p[2] = (v >> 16) & 0xff;
	p[3] = (v >> 24) & 0xff;
}

/* Write one level-0 "-lhd-" header with a Unix extended area. */

static void write_entry(FILE *f, const char *name, unsigned perms)
{
	uint8_t h[300];
	size_t nlen = strlen(name);
	size_t hlen = 22 + nlen + 12;    /* value of the header-length byte */
	size_t total = hlen + 2;
	size_t i;
	unsigned sum = 0;
	uint8_t *ext;

	memset(h, 0, sizeof(h));
	h[0] = (uint8_t) hlen;
	memcpy(h + 2, "-lhd-", 5);
	put32(h + 7, 0);                 /* compressed length */
	put32(h + 11, 0);                /* original length */
	put32(h + 15, 0x3c210000);       /* MS-DOS time (overridden below) */
	h[19] = 0x20;                    /* attribute */
	h[20] = 0;                       /* header level 0 */
	h[21] = (uint8_t) nlen;
	memcpy(h + 22, name, nlen);
	put16(h + 22 + nlen, 0);         /* CRC16 of (empty) contents */

	ext = h + 24 + nlen;             /* Unix extended area, 12 bytes */
	ext[0] = 'U';
	ext[1] = 0;
	put32(ext + 2, ARCHIVE_MTIME);
	put16(ext + 6, perms);
	put16(ext + 8, getuid() & 0xffff);
	put16(ext + 10, getgid() & 0xffff);

	for (i = 2; i < total; ++i) {
		sum += h[i];
	}
	h[1] = sum & 0xff;

	if (fwrite(h, 1, total, f) != total) {
		die("fwrite");
	}
}

static void build_archive(const char *path)
{
	FILE *f = fopen(path, "wb");

	if (f == NULL) {
		die(path);
	}

	write_entry(f, "d/", 040755);
	write_entry(f, "bbbbbbbbbbbb|../canary", 0120777);
	write_entry(f, "bbbbbbbbbbbb|d", 0120777); write_entry(f, "a|bbbbbbbbbbbb", 0120777);
	write_entry(f, "a/file|/nonexistent", 0120777);
	fputc(0, f);                     /* end of archive */

	if (fclose(f) != 0) {
		die("fclose");
	}
}

/* Snapshot of the canary tree: names, types, modes, mtimes, sizes. */

static void snapshot(const char *dir, char *out, size_t out_len)
{
	struct dirent **names;
	struct stat st;
	char path[4096];
	int n, i;
	size_t used = strlen(out);

	if (lstat(dir, &st) != 0) {
		die(dir);
	}
	snprintf(out + used, out_len - used, "%s mode=%o mtime=%ld\n",
	         dir, (unsigned) st.st_mode, (long) st.st_mtime);

	n = scandir(dir, &names, NULL, alphasort);
	if (n < 0) {
		die("scandir");
	}
	for (i = 0; i < n; ++i) {
		if (strcmp(names[i]->d_name, ".") != 0
		 && strcmp(names[i]->d_name, "..") != 0) {
			snprintf(path, sizeof(path), "%s/%s", dir,
			         names[i]->d_name);
			if (lstat(path, &st) != 0) {
				die(path);
			}
			if (S_ISDIR(st.st_mode)) {
				snapshot(path, out, out_len);
			} else {
				used = strlen(out);
				snprintf(out + used, out_len - used,
				         "%s mode=%o mtime=%ld size=%ld\n",
				         path, (unsigned) st.st_mode,
				         (long) st.st_mtime, (long) st.st_size);
			}
		}
		free(names[i]);
	}
	free(names);
}

static void set_mtime(const char *path, time_t t)
{
	struct utimbuf ut;

	ut.actime = t;
	ut.modtime = t;
	if (utime(path, &ut) != 0) {
		die(path);
	}
}

int main(int argc, char *argv[])
{
	static char before[16384], after[16384];
	char root[4096], canary[4096], sub[4096], cfile[4096], arch[4096];
	char wopt[4200];
	const char *lha, *work;
	FILE *f;
	pid_t pid;
	int status;

	if (argc != 3) {
		fprintf(stderr, "usage: %s <lha-binary> <work-dir>\n", argv[0]);
		return 2;
	}
	lha = argv[1];
	work = argv[2];

	umask(022);

	snprintf(root, sizeof(root), "%s/root", work);
	snprintf(canary, sizeof(canary), "%s/canary", work);
	snprintf(sub, sizeof(sub), "%s/canary/sub", work);
	snprintf(cfile, sizeof(cfile), "%s/canary/file", work);
	snprintf(arch, sizeof(arch), "%s/t.lzh", work);

	if (mkdir(root, 0755) != 0) die(root);
	if (mkdir(canary, 0755) != 0) die(canary);
	if (mkdir(sub, 0700) != 0) die(sub);
	if (chmod(sub, 0700) != 0) die(sub);

	f = fopen(cfile, "w");
	if (f == NULL) die(cfile);
	fputs("do not touch\n", f);
	fclose(f);

	set_mtime(cfile, CANARY_MTIME);
	set_mtime(sub, CANARY_MTIME);
	set_mtime(canary, CANARY_MTIME);

	build_archive(arch);

	before[0] = '\0';
	snapshot(canary, before, sizeof(before));

	/* Run: lha xw=<root> <archive>  (stdin from /dev/null). */

	snprintf(wopt, sizeof(wopt), "xw=%s", root);

	pid = fork();
	if (pid < 0) die("fork");
	if (pid == 0) {
		if (freopen("/dev/null", "r", stdin) == NULL) _exit(126);
		execl(lha, lha, wopt, arch, (char *) NULL);
		_exit(127);
	}
	if (waitpid(pid, &status, 0) != pid) die("waitpid");
	if (!WIFEXITED(status) || WEXITSTATUS(status) >= 126) {
		fprintf(stderr, "demo: could not run %s\n", lha);
		return 2;
	}
	printf("lha exit status: %d\n", WEXITSTATUS(status));

	after[0] = '\0';
	snapshot(canary, after, sizeof(after));

	printf("--- canary before ---\n%s--- canary after ---\n%s",
	       before, after);

	if (strcmp(before, after) != 0) {
		printf("VIOLATION: an object outside the extraction "
		       "directory was modified\n");
		return 1;
	}

	printf("OK: nothing outside the extraction directory changed\n");
	return 0;
}

/* Native replay driver for decoder properties (C09/C13/C14): feed <bytes> as compressed data of <method> with
   declared length <len>, reading in chunks of <chunk> bytes, under ASan/UBSan.
   usage: drv_decoder <method e.g. -pm2-> <bytes-hex or -> <declared-len> <chunk>
   exit 0 = ran to completion without a sanitizer report; the sanitizers abort with a non-zero code. */
#include <stdio.h>
#include <stdlib.h>
#include <string.h>
#include <stdint.h>
#include "lha_decoder.h"
static uint8_t in[1 << 16]; static size_t in_len, in_pos;
static size_t cb(void *buf, size_t buf_len, void *user)
{
	size_t n = in_len - in_pos; (void) user;
	if (n > buf_len) n = buf_len;
	memcpy(buf, in + in_pos, n); in_pos += n;
	return n;
}
int main(int argc, char **argv)
{
	LHADecoderType *t; LHADecoder *d; size_t len, chunk, total = 0, r, i; uint8_t *out;
	if (argc < 5) return 2;
	if (strcmp(argv[2], "-")) for (i = 0; argv[2][i] && argv[2][i + 1] && in_len < sizeof in; i += 2) { unsigned v; sscanf(argv[2] + i, "%2x", &v); in[in_len++] = (uint8_t) v; }
	len = strtoul(argv[3], 0, 10); chunk = strtoul(argv[4], 0, 10); if (chunk == 0) chunk = 1;
	t = lha_decoder_for_name(argv[1]); if (!t) { printf("unknown method\n"); return 2; }
	d = lha_decoder_new(t, cb, NULL, len); if (!d) { printf("decoder_new failed\n"); return 0; }
	out = malloc(chunk);
	for (;;) { r = lha_decoder_read(d, out, chunk); if (r > chunk) { printf("read returned %zu > %zu asked\n", r, chunk); return 1; } total += r; if (r == 0) break; }
	printf("method=%s in=%zu declared=%zu chunk=%zu produced=%zu crc=%04x\n", argv[1], in_len, len, chunk, total, lha_decoder_get_crc(d));
	free(out); lha_decoder_free(d);
	return total > len ? 1 : 0;
}

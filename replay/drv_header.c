/* Native replay driver for header-parser properties (C05/C08/C11/C12): feeds <bytes> to the REAL
   lha_file_header_read() (lib/lha_file_header.c + ext_header.c + lha_endian.c + crc16.c, built with ASan/UBSan)
   through a memory stream and checks the returned header natively.
   usage: drv_header <bytes-hex>     exit 0 = no header returned or the header satisfies the checks;
   1 = a returned header violates C11/C12; sanitizer abort = memory error (C08). */
#include <stdio.h>
#include <stdlib.h>
#include <string.h>
#include <stdint.h>
#include "lha_input_stream.h"
#include "lha_file_header.h"
static uint8_t in[4096]; static size_t in_len, in_pos;
int lha_input_stream_read(LHAInputStream *stream, void *buf, size_t buf_len)
{
	(void) stream;
	if (buf_len > in_len - in_pos) { in_pos = in_len; return 0; }
	memcpy(buf, in + in_pos, buf_len); in_pos += buf_len;
	return 1;
}
int main(int argc, char **argv)
{
	LHAFileHeader *h; size_t i; int bad = 0;
	if (argc < 2) return 2;
	if (strcmp(argv[1], "-")) for (i = 0; argv[1][i] && argv[1][i + 1] && in_len < sizeof in; i += 2) { unsigned v; sscanf(argv[1] + i, "%2x", &v); in[in_len++] = (uint8_t) v; }
	h = lha_file_header_read(NULL);
	if (h == NULL) { printf("no header returned\n"); return 0; }
	printf("header returned: level=%u method=%.5s name=%s path=%s\n", h->header_level, h->compress_method, h->filename ? h->filename : "(null)", h->path ? h->path : "(null)");
	if (h->header_level > 3) { printf("C12: level above 3 returned\n"); bad = 1; }
	if (h->filename && strchr(h->filename, '/')) { printf("C11: file name contains '/'\n"); bad = 1; }
	if (h->path) {
		const char *p = h->path; if (*p == '/') p++;
		while (*p) { const char *e = strchr(p, '/'); size_t n; if (!e) break; n = (size_t) (e - p);
			if (n == 0 || (n == 1 && p[0] == '.') || (n == 2 && p[0] == '.' && p[1] == '.')) { printf("C11: empty, '.' or '..' component in path\n"); bad = 1; }
			p = e + 1; }
	}
	if (h->header_level <= 1 && in_len >= 22) {
		unsigned sum = 0, hl = in[0], minl = h->header_level == 0 ? 22 : 25;
		for (i = 2; i < hl + 2 && i < in_len; i++) sum += in[i];
		if (hl + 2 > in_len || (sum & 0xff) != in[1] || hl < minl || minl + in[21] > hl) { printf("C12: level-0/1 header returned although its own checksum/length rules fail\n"); bad = 1; }
	}
	lha_file_header_free(h);
	return bad;
}

/* Native replay driver for C11 collapse_path: runs the REAL collapse_path (lib/lha_file_header.c is #included so that
   the static function is reachable) on the given string and checks the property's predicate.
   usage: drv_path <string-hex>    exit 1 = the collapsed path has an empty, '.' or '..' component (or grew). */
#include <stdio.h>
#include <stdlib.h>
#include <string.h>
#include <stdint.h>
#include "lha_input_stream.h"
int lha_input_stream_read(LHAInputStream *stream, void *buf, size_t buf_len) { (void) stream; (void) buf; (void) buf_len; return 0; }
#include "lha_file_header.c"
int main(int argc, char **argv)
{
	char buf[4096]; size_t n = 0, i, start, len; int bad = 0;
	if (argc < 2) return 2;
	if (strcmp(argv[1], "-")) for (i = 0; argv[1][i] && argv[1][i + 1] && n + 1 < sizeof buf; i += 2) { unsigned v; sscanf(argv[1] + i, "%2x", &v); buf[n++] = (char) v; }
	buf[n] = 0;
	printf("input  : "); for (i = 0; i < n; i++) printf("%02x ", (unsigned char) buf[i]); printf("\n");
	collapse_path(buf);
	len = strlen(buf);
	printf("result : "); for (i = 0; i < len; i++) printf("%02x ", (unsigned char) buf[i]); printf(" \"%s\"\n", buf);
	if (len > n) { printf("C11: result longer than input\n"); bad = 1; }
	start = (len > 0 && buf[0] == '/') ? 1 : 0;
	for (i = start; i < len; i++) if (buf[i] == '/') {
		size_t c = i - start;
		if (c == 0 || (c == 1 && buf[start] == '.') || (c == 2 && buf[start] == '.' && buf[start + 1] == '.')) { printf("C11: empty, '.' or '..' component at offset %zu\n", start); bad = 1; }
		start = i + 1;
	}
	return bad;
}

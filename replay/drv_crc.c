/* Native replay driver for C17: lha_crc16_buf (real /repo code) against the bitwise CRC-16/ARC
   definition, whole and split.  usage: drv_crc <state-hex> <bytes-hex> [split]   exit 1 = mismatch
   alias mode: drv_crc alias <bytes-hex> <offset>: the crc variable is the 16-bit field at <offset> INSIDE the buffer;
   the value left there must be the reference fold (from the field's old value) over the bytes as passed in. */
#include <stdio.h>
#include <stdlib.h>
#include <string.h>
#include <stdint.h>
#include "crc16.h"
static uint16_t ref(uint16_t c, uint8_t b){int k;c^=b;for(k=0;k<8;k++)c=(c&1)?(uint16_t)((c>>1)^0xA001):(uint16_t)(c>>1);return c;}
int main(int argc,char**argv){
	uint8_t buf[4096]; size_t n=0,i,split; uint16_t c0,c,r,p;
	if(argc<3)return 2;
	if(!strcmp(argv[1],"alias")){
		size_t off; uint16_t f;
		if(argc<4)return 2;
		for(i=0;argv[2][i]&&argv[2][i+1]&&n<sizeof buf;i+=2){unsigned v;sscanf(argv[2]+i,"%2x",&v);buf[n++]=(uint8_t)v;}
		off=strtoul(argv[3],0,10); if(off+2>n)return 2;
		memcpy(&f,buf+off,2); r=f; for(i=0;i<n;i++)r=ref(r,buf[i]);
		lha_crc16_buf((uint16_t*)(void*)(buf+off),buf,n); memcpy(&f,buf+off,2);
		printf("alias n=%zu offset=%zu reference=%04x in-place=%04x\n",n,off,r,f);
		return f==r?0:1;
	}
	c0=(uint16_t)strtoul(argv[1],0,16);
	for(i=0;argv[2][i]&&argv[2][i+1]&&n<sizeof buf;i+=2){unsigned v;sscanf(argv[2]+i,"%2x",&v);buf[n++]=(uint8_t)v;}
	split=argc>3?strtoul(argv[3],0,10):0; if(split>n)split=n;
	r=c0;for(i=0;i<n;i++)r=ref(r,buf[i]);
	c=c0;lha_crc16_buf(&c,buf,n);
	p=c0;lha_crc16_buf(&p,buf,split);lha_crc16_buf(&p,buf+split,n-split);
	printf("state=%04x n=%zu split=%zu reference=%04x whole=%04x piecewise=%04x\n",c0,n,split,r,c,p);
	return (c==r&&p==r)?0:1;
}
